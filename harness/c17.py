"""C17 — every cell of a single-cell file reads back as the matrix given for it.

Correspondence: cooler.create_scool on random inputs (common bin table with 1-3 chromosomes, fixed or
variable bins; 1-5 cells whose names come from a grammar with spaces, digits and punctuation but no
'/'; arbitrary, also empty, sorted upper-triangular pixel tables; a single shared bin table -- with or
without extra columns -- or per-cell bin tables with per-cell extra columns) against the Gallina model
(coq/Model/Scool.v over the object store of Model/H5.v): the complete raw tree of the file (payloads,
enum headers, object identities = which datasets are shared), list_scool_cells and is_scool_file.

Property oracle (own python/numpy reading): each /cells/<name> read through cooler.Cooler gives exactly
the pixel rows supplied for that name, the common bins plus that cell's extra columns, the dense matrix
rebuilt with numpy; cells/<name>/bins/{chrom,start,end} and cells/<name>/chroms are the root's objects
(h5py identity) while extra columns are per cell; the listing is exactly the given names in natural
order; the file is recognised as a single-cell file.
"""
from __future__ import annotations

import os
import re

import h5py
import numpy as np
import pandas as pd

import coqio as C
import gen_c15 as G

PROP = "C17"
RULE = ("seeded random single-cell inputs: common bin table (1-3 chromosomes, fixed/variable bins, <=12 bins) x 1-5 distinct cell names from a grammar "
        "(letters, digits, spaces, punctuation, no '/', no '::'; names starting with every letter of 'cells/', digits, prefixes of each other) given as plain keys or as group-path-like keys "
        "(/cells/<name>, cells/<name>, /<name>, dir/<name>, a/b/<name>: the last component is the cell name), incl. the round trip keys = list_scool_cells(other file), x arbitrary incl. empty pixel tables x {single bin table, single bin table with extra "
        "columns, per-cell bin tables with per-cell extra columns} x optional parameters in 60% of the cases (dtypes: count as float64 with fractional dyadic values / int64 beyond int32, "
        "an extra pixel value column through columns+dtypes, h5opts, mode a/w incl. a collection already in the file, symmetric_upper=False cells, cell pixels as frame / column dict / iterator of chunks, "
        "ordered x ensure_sorted incl. rows scrambled (within the frame or within each chunk) when ensure_sorted=True, check flags), every cell compared value by value and dtype by dtype, "
        "stored row order and bin1_offset/chrom_offset against the schema, sub-range, per-chromosome and two-chromosome matrix fetches, plus a fixed corpus; non-trivial = at least two cells with different pixel tables; distinct by input hash")
TRUSTED = ["h5py raw reads and object addresses are the observation channel for stored content and sharing"]
ASSUMPTIONS = ["cell names are valid HDF5 link names without '/' and without the URI separator '::' (DESIGN section 8)",
               "pixel tables are handed over sorted by (bin1_id, bin2_id) (the documented precondition of create_scool) unless ensure_sorted=True is passed; "
               "create_scool's `ordered` parameter is ignored by the code (unsorted input with ordered=False and without ensure_sorted is stored as is): reported, outside the claimed domain"]
RESIDUE = ["two keys with the same final component silently overwrite each other (the later key in sorted order wins, ncells still counts both) and a key ending in '/' "
           "gives a file that is not recognised: reported, outside the claimed domain (distinct final components); names containing '::' are refused by the URI parser",
           "extra bin columns are integer-valued in the explored inputs", "HDF5 semantics are modelled by the object store"]

NAME_CHARS = "abcXYZ019 _-.:,;+()[]{}@#%&=!~'"


def natkey(s):
    return [int(t) if t.isdigit() else t for t in re.split(r"(\d+)", s)]


# ------------------------------------------------------------------ generation
def gen_name(rng):
    while True:
        n = "".join(rng.choice(NAME_CHARS) for _ in range(rng.randint(1, 8)))
        if "::" not in n and n.strip(".") != "":        # "." is HDF5's "this group", not a link name
            return n


TRICKY_NAMES = ["cell1", "cell2", "cell10", "sample3", "c", "e1", "l_x", "s", "ss", "cells", "ells", "lls", "cel", "1cell", "e", "l", "sc",
                "a", "ab", "abc", "cell", "cell1x", "0", "07", "s/".strip("/"), "A", "b"]
KEY_FORMS = ["{n}", "{n}", "/cells/{n}", "/cells/{n}", "cells/{n}", "/{n}", "dir/{n}", "a/b/{n}", "/cells/cells/{n}", "scool/cells/{n}"]


def key_of(case, n):
    """the key of the cell dict handed to create_scool: the cell name itself or a group-path-like key whose LAST
    component is the cell name (the branch `if "/" in key` of create_scool)"""
    return (case.get("keys") or {}).get(n, n)


def gen_case(rng):
    nch = rng.randint(1, 3)
    names = rng.sample(["chr1", "chr2", "chrX", "a", "b", "2"], nch)
    rows = []
    variable = rng.random() < 0.3
    for nm in names:
        L = rng.randint(5, 40)
        if variable and L > 2:
            cuts = sorted(set(rng.sample(range(1, L), min(L - 1, rng.randint(0, 2)))))
            edges = [0] + cuts + [L]
        else:
            edges = list(range(0, L, 10)) + [L]
        for s, e in zip(edges[:-1], edges[1:]):
            rows.append((nm, s, e))
    nb = len(rows)
    ncell = rng.randint(1, 5)
    cnames = []
    while len(cnames) < ncell:
        n = rng.choice(TRICKY_NAMES) if rng.random() < 0.5 else gen_name(rng)
        if n not in cnames:
            cnames.append(n)
    mode = rng.choice(["single", "single_extra", "dict"])
    cells = {}
    for n in cnames:
        px = {}
        if rng.random() > 0.2:
            for _ in range(rng.randint(1, 2 * nb)):
                i, j = rng.randrange(nb), rng.randrange(nb)
                px[(min(i, j), max(i, j))] = rng.randint(1, 20)
        extra = None
        if mode == "dict":
            extra = {"cov": [rng.randint(0, 50) for _ in range(nb)]}
            if rng.random() < 0.4:
                extra["flag"] = [rng.randint(0, 1) for _ in range(nb)]
        cells[n] = {"pixels": sorted((i, j, v) for (i, j), v in px.items()), "extra": extra}
    if mode == "dict":           # all per-cell tables must carry the same columns
        cols = sorted(set().union(*[set(c["extra"]) for c in cells.values()]))
        for c in cells.values():
            for col in cols:
                c["extra"].setdefault(col, [rng.randint(0, 9) for _ in range(nb)])
    shared_extra = {"gc": [rng.randint(0, 100) for _ in range(nb)]} if mode == "single_extra" else None
    case = {"chromnames": names, "bins": rows, "mode": mode, "shared_extra": shared_extra, "order": cnames, "cells": cells}
    if rng.random() < 0.6:      # path-like keys
        case["keys"] = {n: rng.choice(KEY_FORMS).format(n=n) for n in cnames}
    case["windows"] = []
    for _ in range(3):
        a, b = sorted(rng.sample(range(nb + 1), 2)) if nb >= 1 else (0, 0)
        c_, d_ = sorted(rng.sample(range(nb + 1), 2)) if nb >= 1 else (0, 0)
        case["windows"].append([a, b, c_, d_])
    if rng.random() < 0.6:
        case["opts"] = gen_opts(rng, case, nb)
    return case


def gen_opts(rng, case, nb):
    """optional parameters of create_scool: dtypes (count as float64 with fractional dyadic values / int64 beyond
    int32 / default), an extra pixel value column via columns+dtypes, h5opts, mode, square (non-symmetric) cells,
    chunked iterator input, the check flags, a collection already present in the file (mode a)"""
    o = {"count_dtype": rng.choice(["default", "float64", "int64", "int32"]),
         "extra": rng.choice([None, None, ["score", "float64"], ["score", "int32"], ["w2", "float64"]]),
         "h5opts": rng.choice([None, None, {"compression": "lzf"}, {"compression": "gzip", "compression_opts": 1, "shuffle": False}]),
         "mode": rng.choice(["w", "w", "a"]), "symm": rng.random() > 0.25,
         "chunks": rng.choice([None, None, 1, 2, 3]),
         "flags": {k: rng.random() < 0.7 for k in ("boundscheck", "dupcheck", "triucheck")},
         "pre": rng.random() < 0.3,
         "ensure_sorted": rng.random() < 0.5, "ordered": rng.choice([None, True, False]),
         "as_dict": rng.random() < 0.3}
    # rows handed over in a scrambled order are legitimate only together with ensure_sorted=True
    # (whole frame, or within each chunk of an iterator whose chunks are themselves in order)
    o["dtype_kw"] = rng.choice(["dtypes", "dtype"])
    o["dtypes_form"] = rng.choice(["full", "partial", "partial", "empty", "none"])
    o["shuffle"] = o["ensure_sorted"] and rng.random() < 0.8
    o["perm_seed"] = rng.randrange(10 ** 6)
    if not o["symm"]:
        # square storage: lower-triangle pixels are legitimate whatever triucheck says (default, True or False)
        tc = rng.choice(["default", True, False])
        if tc == "default":
            o["flags"].pop("triucheck", None)
        else:
            o["flags"]["triucheck"] = tc
    for n, c in case["cells"].items():
        px = {}
        for (i, j, v) in c["pixels"]:
            if not o["symm"] and rng.random() < 0.5:
                i, j = j, i
            if o["count_dtype"] == "float64":
                v = v + rng.choice([0.25, 0.5, 0.75, 0.125, 0.0])
            elif o["count_dtype"] == "int64":
                v = v + rng.choice([0, 2 ** 31, 2 ** 40 + 5])
            px[(i, j)] = v
        if not o["symm"]:
            for _ in range(rng.randint(0, nb)):
                i, j = rng.randrange(nb), rng.randrange(nb)
                px.setdefault((i, j), rng.randint(1, 9) + (0.5 if o["count_dtype"] == "float64" else 0))
        c["pixels"] = sorted((i, j, v) for (i, j), v in px.items())
        if o["extra"]:
            c["xcol"] = [(rng.randint(-8, 40) / 4.0 if o["extra"][1] == "float64" else rng.randint(-5, 1000)) for _ in c["pixels"]]
    return o


def corpus():
    bins = [("chr1", 0, 10), ("chr1", 10, 20), ("chr1", 20, 25), ("chr2", 0, 10), ("chr2", 10, 13)]
    p1 = [(0, 1, 1), (1, 4, 2)]
    p2 = []
    p3 = [(2, 2, 9)]
    out = [
        {"chromnames": ["chr1", "chr2"], "bins": bins, "mode": "single", "shared_extra": None, "order": ["cellB", "cellA", "c 3"],
         "cells": {"cellB": {"pixels": p1, "extra": None}, "cellA": {"pixels": p2, "extra": None}, "c 3": {"pixels": p3, "extra": None}}},
        {"chromnames": ["chr1", "chr2"], "bins": bins, "mode": "dict", "shared_extra": None, "order": ["u", "v"],
         "cells": {"u": {"pixels": p1, "extra": {"w": [0, 1, 2, 3, 4]}}, "v": {"pixels": p3, "extra": {"w": [0, 2, 4, 6, 8]}}}},
        {"chromnames": ["chr1", "chr2"], "bins": bins, "mode": "single_extra", "shared_extra": {"gc": [5, 4, 3, 2, 1]}, "order": ["cell10", "cell9", "cell 9"],
         "cells": {"cell10": {"pixels": p1, "extra": None}, "cell9": {"pixels": p3, "extra": None}, "cell 9": {"pixels": p1[::-1][::-1], "extra": None}}},
        {"chromnames": ["chr1", "chr2"], "bins": bins, "mode": "single", "shared_extra": None, "order": ["only"],
         "cells": {"only": {"pixels": p2, "extra": None}}},
        # the Appendix-B mutation shape: several cells with different content
        {"chromnames": ["chr1", "chr2"], "bins": bins, "mode": "single", "shared_extra": None, "order": ["z", "a", "m"],
         "cells": {"z": {"pixels": p3, "extra": None}, "a": {"pixels": p1, "extra": None}, "m": {"pixels": [(0, 0, 4)], "extra": None}}},
        # path-like keys: the last component is the cell name; names starting with every letter of "cells/", digits, prefixes
        {"chromnames": ["chr1", "chr2"], "bins": bins, "mode": "single", "shared_extra": None,
         "order": ["cell1", "sample3", "e2", "l4", "s5", "c6", "7up", "cell", "cell10", "plain"],
         "keys": {"cell1": "/cells/cell1", "sample3": "/cells/sample3", "e2": "cells/e2", "l4": "/l4", "s5": "dir/s5", "c6": "a/b/c6",
                  "7up": "/cells/7up", "cell": "/cells/cells/cell", "cell10": "scool/cells/cell10"},
         "cells": {n: {"pixels": [(i % 5, 4, i + 1)] if i % 3 else [(0, i % 5, i + 2), (2, 2, 1)], "extra": None}
                   for i, n in enumerate(["cell1", "sample3", "e2", "l4", "s5", "c6", "7up", "cell", "cell10", "plain"])}},
        {"chromnames": ["chr1", "chr2"], "bins": bins, "mode": "dict", "shared_extra": None, "order": ["ss", "s", "lls", "ells"],
         "keys": {"ss": "/cells/ss", "s": "/cells/s", "lls": "cells/lls", "ells": "/cells/ells"},
         "cells": {"ss": {"pixels": p1, "extra": {"w": [0, 1, 2, 3, 4]}}, "s": {"pixels": p3, "extra": {"w": [5, 6, 7, 8, 9]}},
                   "lls": {"pixels": p2, "extra": {"w": [1, 1, 1, 1, 1]}}, "ells": {"pixels": [(1, 1, 4)], "extra": {"w": [2, 2, 2, 2, 2]}}}},
        {"chromnames": ["chr1", "chr2"], "bins": bins, "mode": "single", "shared_extra": None, "order": ["f1", "f2"],
         "cells": {"f1": {"pixels": [(0, 1, 1.5), (1, 4, 2.25)], "extra": None}, "f2": {"pixels": [(2, 2, 0.125)], "extra": None}},
         "opts": {"count_dtype": "float64", "extra": None, "h5opts": None, "mode": "w", "symm": True, "chunks": None, "flags": {}, "pre": False}},
        {"chromnames": ["chr1", "chr2"], "bins": bins, "mode": "dict", "shared_extra": None, "order": ["big", "sq"],
         "cells": {"big": {"pixels": [(0, 1, 2 ** 40 + 5), (1, 4, 2)], "extra": {"w": [0, 1, 2, 3, 4]}, "xcol": [0.5, -1.25]},
                   "sq": {"pixels": [(0, 1, 7), (3, 0, 2 ** 31)], "extra": {"w": [9, 8, 7, 6, 5]}, "xcol": [3.0, 0.75]}},
         "opts": {"count_dtype": "int64", "extra": ["score", "float64"], "h5opts": {"compression": "lzf"}, "mode": "a", "symm": False,
                  "chunks": 1, "flags": {"boundscheck": True, "dupcheck": False, "triucheck": False}, "pre": True}},
    ]
    return out


CORPUS_SORT = {"chromnames": ["chr1", "chr2"], "bins": [("chr1", 0, 10), ("chr1", 10, 20), ("chr1", 20, 25), ("chr2", 0, 10), ("chr2", 10, 13)],
               "mode": "single", "shared_extra": None, "order": ["u1", "u2"],
               "cells": {"u1": {"pixels": [(0, 1, 1), (0, 3, 2), (1, 1, 3), (2, 4, 4), (3, 3, 5)], "extra": None},
                         "u2": {"pixels": [(0, 0, 7), (1, 2, 1), (4, 4, 2)], "extra": None}},
               "opts": {"count_dtype": "default", "extra": None, "h5opts": None, "mode": "w", "symm": True, "chunks": None, "flags": {},
                        "pre": False, "ensure_sorted": True, "ordered": None, "as_dict": False, "shuffle": True, "perm_seed": 11}}

NP_DTYPE = {"default": np.int32, "int32": np.int32, "int64": np.int64, "float64": np.float64}


def count_dtype_name(case):
    o = case.get("opts")
    return np.dtype(NP_DTYPE[o["count_dtype"]] if o else np.int32).name


# ------------------------------------------------------------------ implementation
def frames(case):
    base = pd.DataFrame(case["bins"], columns=["chrom", "start", "end"])
    if case["mode"] == "dict":
        bins = {}
        for n in case["order"]:
            b = base.copy()
            for col, vals in case["cells"][n]["extra"].items():
                b[col] = np.array(vals, dtype=np.int64)
            bins[key_of(case, n)] = b
    else:
        bins = base.copy()
        if case["shared_extra"]:
            for col, vals in case["shared_extra"].items():
                bins[col] = np.array(vals, dtype=np.int64)
    px = {}
    o = case.get("opts")
    for n in case["order"]:
        r = case["cells"][n]["pixels"]
        df = pd.DataFrame({"bin1_id": np.array([x[0] for x in r], dtype=np.int64),
                           "bin2_id": np.array([x[1] for x in r], dtype=np.int64),
                           "count": np.array([x[2] for x in r], dtype=NP_DTYPE[o["count_dtype"]] if o else np.int32)})
        if o and o["extra"]:
            df[o["extra"][0]] = np.array(case["cells"][n]["xcol"], dtype=o["extra"][1])
        prng = __import__("random").Random((o or {}).get("perm_seed", 0) + len(n))

        def scramble(part):
            if o and o.get("shuffle") and len(part) > 1:
                idx = list(range(len(part)))
                prng.shuffle(idx)
                return part.iloc[idx].reset_index(drop=True)
            return part
        if o and o["chunks"]:
            k = o["chunks"]
            px[key_of(case, n)] = [scramble(df.iloc[a:a + k]) for a in range(0, max(len(df), 1), k)]      # an iterable of chunks
        elif o and o.get("as_dict"):
            sd = scramble(df)
            px[key_of(case, n)] = {col: sd[col].values for col in sd.columns}                              # a column dict
        else:
            px[key_of(case, n)] = scramble(df)
    return bins, px


def scool_kwargs(case):
    o = case.get("opts")
    if not o:
        return {}
    kw = {"mode": o["mode"], "symmetric_upper": o["symm"]}
    # the dtype mapping: complete, or only the entries that differ from the defaults (count int32, other value
    # columns float64) - then possibly {} or None - and spelled `dtypes=` or through the still accepted alias `dtype=`
    dt = {}
    form = o.get("dtypes_form", "partial")
    if o["count_dtype"] != "default" and (form == "full" or NP_DTYPE[o["count_dtype"]] is not np.int32):
        dt["count"] = NP_DTYPE[o["count_dtype"]]
    elif form == "full":
        dt["count"] = np.int32
    if o["extra"]:
        kw["columns"] = ["count", o["extra"][0]]
        if form == "full" or o["extra"][1] != "float64":
            dt[o["extra"][0]] = np.dtype(o["extra"][1]).type
    if form == "full":
        dt.update({"bin1_id": np.int64, "bin2_id": np.int64})
    spelling = o.get("dtype_kw", "dtypes")
    if dt or form == "empty":
        kw[spelling] = dt
    elif form == "none":
        kw["dtypes"] = None
    if o["h5opts"]:
        kw["h5opts"] = dict(o["h5opts"])
    kw.update(o["flags"])
    if o.get("ensure_sorted") is not None:
        kw["ensure_sorted"] = bool(o.get("ensure_sorted"))
    if o.get("ordered") is not None:
        kw["ordered"] = o["ordered"]
    return kw


def windows_of(case):
    nb = len(case["bins"])
    return case.get("windows") or [[0, nb, 0, nb // 2 + 1], [min(1, nb), nb, 0, min(2, nb)], [nb // 2, nb, nb // 2, nb]]


def num(v):
    """exact python number: int when integral-typed, float otherwise"""
    if isinstance(v, (np.integer, int)):
        return int(v)
    v = float(v)
    return int(v) if False else v


def raw_group(fn, root):
    out = {}
    with h5py.File(fn, "r") as h:
        g = h[root]
        attrs = _attrs(g)
        for t in g.keys():
            out[t] = {col: G._payload(g[t][col]) for col in g[t].keys()}
    return out, attrs


def ident(o):
    return int(h5py.h5o.get_info(o.id).addr)


def run_impl(d, k, case, given=None):
    """given = (bins, pixels) input objects to hand over instead of freshly built ones (input reuse, generators)"""
    import cooler
    from cooler import fileops
    fn = os.path.join(d, f"s{k}.scool")
    bins, px = given if given is not None else frames(case)
    o_ = case.get("opts") or {}
    out = {}
    if o_.get("pre"):
        # a plain collection already in the file: mode "a" must keep it, mode "w" replaces the file
        cooler.create_cooler(fn + "::/other", pd.DataFrame(case["bins"], columns=["chrom", "start", "end"]),
                             pd.DataFrame({"bin1_id": [0], "bin2_id": [0], "count": [3]}))
        with h5py.File(fn, "r+") as h_:
            h_.attrs["note"] = "keep me"          # an unrelated attribute of the file
        out["pre_tables"] = raw_group(fn, "/other")
    out["outcome"] = G.guarded(cooler.create_scool, fn, bins, px, **scool_kwargs(case))[0]
    if out["outcome"] != "Ok" or not os.path.exists(fn):
        return out
    o, v = G.guarded(fileops.list_scool_cells, fn)
    out["listing"] = [o, list(v) if o == "Ok" else []]
    o, v = G.guarded(fileops.is_scool_file, fn)
    out["is_scool"] = bool(v) if o == "Ok" else o
    cells = {}
    for n in case["order"]:
        def rd():
            c = cooler.Cooler(fn + "::/cells/" + n)
            b = c.bins()[:]
            p = c.pixels()[:]
            xc = (case.get("opts") or {}).get("extra")
            return {"pixels": [[int(a), int(b_), num(v_)] for a, b_, v_ in zip(p["bin1_id"], p["bin2_id"], p["count"])],
                    "count_dtype": p["count"].dtype.name,
                    "xcol": [num(v_) for v_ in p[xc[0]]] if xc else None, "xcol_dtype": p[xc[0]].dtype.name if xc else None,
                    "bins": {col: ([str(x) for x in b[col]] if col == "chrom" else [int(x) for x in b[col]]) for col in b.columns},
                    "matrix": [[num(x) for x in row] for row in c.matrix(balance=False)[:]],
                    "windows": [[[num(x) for x in row] for row in c.matrix(balance=False)[a:b_, c_:d_]] for a, b_, c_, d_ in windows_of(case)],
                    "by_chrom": {ch: [[num(x) for x in row] for row in c.matrix(balance=False).fetch(ch)] for ch in case["chromnames"]},
                    "trans": [[num(x) for x in row] for row in c.matrix(balance=False).fetch(case["chromnames"][0], case["chromnames"][-1])],
                    "chroms": [[str(a), int(L)] for a, L in c.chromsizes.items()],
                    "nnz": int(c.info["nnz"]), "sum": num(c.info["sum"])}
        o, v = G.guarded(rd)
        cells[n] = v if o == "Ok" else o
    out["cells"] = cells
    with h5py.File(fn, "r") as h:
        ids = {"root": {"chroms": ident(h["chroms"])}, "cells": {}}
        for col in h["bins"].keys():
            ids["root"]["bins/" + col] = ident(h["bins"][col])
        for n in case["order"]:
            g = h["cells"].get(n)
            if g is None:
                ids["cells"][n] = None
                continue
            e = {"chroms": ident(g["chroms"]), "bins": ident(g["bins"]),
                 "pixel_dtypes": {col: g["pixels"][col].dtype.name for col in g["pixels"].keys()},
                 "count_compression": g["pixels"]["count"].compression, "storage": _attrs(g).get("storage-mode"),
                 "bin1_offset": [int(x) for x in g["indexes"]["bin1_offset"][:]] if "indexes" in g else None,
                 "chrom_offset": [int(x) for x in g["indexes"]["chrom_offset"][:]] if "indexes" in g else None,
                 "raw_bin1": [int(x) for x in g["pixels"]["bin1_id"][:]], "raw_bin2": [int(x) for x in g["pixels"]["bin2_id"][:]]}
            for col in g["bins"].keys():
                e["bins/" + col] = ident(g["bins"][col])
            ids["cells"][n] = e
        ids["cellkeys"] = sorted(h["cells"].keys())
        ids["rootkeys"] = sorted(h.keys())
        ids["other_is_cooler"] = ("other" in h and h["other"].attrs.get("format", None) == "HDF5::Cooler")
        ids["root_note"] = h.attrs.get("note", None)
    ids["other_after"] = raw_group(fn, "/other") if ids["other_is_cooler"] else None
    with h5py.File(fn, "r") as h:
        pass
        attrs = {"root": _attrs(h), "cells": {n: _attrs(h["cells"][n]) for n in h["cells"].keys()}}
    out["ids"] = ids
    out["attrs"] = attrs
    out["dump"] = G.canon_dump(scale_floats(G.raw_dump_file(fn, 6)))
    return out


def scale_floats(entries):
    """float payloads (dyadic by construction) are shown to the integer-payload model as value*8"""
    out = []
    for p, e in entries:
        if e[0] == "D" and e[2][0] == "F":
            e = ["D", e[1], ["I", [scaled(v) for v in e[2][1]]]]
        out.append([p, e])
    return out


def scaled(v):
    x = v * 8
    if x != int(x):
        raise ValueError("non-dyadic float in a payload")
    return int(x)


def _attrs(o):
    return {k: (int(v) if isinstance(v, (np.integer, int)) else (v.decode() if isinstance(v, bytes) else str(v)))
            for k, v in o.attrs.items() if k not in G.VOLATILE_ATTRS}


# ------------------------------------------------------------------ oracle
def oracle(case, r):
    bad = []
    if case.get("expect_refusal"):
        return [] if r["outcome"] != "Ok" else [{"what": "pixels below the diagonal were accepted for symmetric-upper storage"}]
    if r["outcome"] != "Ok":
        return [{"what": "create_scool raised", "outcome": r["outcome"]}]
    names = case["order"]
    exp_list = sorted(["/cells/" + n for n in names], key=natkey)
    foreign = bool((case.get("opts") or {}).get("pre")) and (case.get("opts") or {}).get("mode") == "a"
    if foreign:
        # a plain collection put into the file beforehand (outside the property's quantifier) is reported by
        # list_scool_cells as well: only require the given cells, in order
        got_l = [r["listing"][0], [p_ for p_ in r["listing"][1] if p_ != "/other"]]
    else:
        got_l = r["listing"]
    if got_l != ["Ok", exp_list]:
        bad.append({"what": "list_scool_cells", "got": r["listing"], "expected": exp_list})
    if r["is_scool"] is not True:
        bad.append({"what": "is_scool_file", "got": r["is_scool"]})
    nb = len(case["bins"])
    ids = r["ids"]
    o0 = case.get("opts") or {}
    if o0.get("pre") and ids["other_is_cooler"] != (o0["mode"] == "a"):
        bad.append({"what": "collection already in the file: mode a must keep it, mode w must replace the file",
                    "mode": o0["mode"], "still_there": ids["other_is_cooler"]})
    if o0.get("pre") and o0["mode"] == "a":
        if ids.get("root_note") != "keep me":
            bad.append({"what": "append mode lost an unrelated attribute of the file", "got": ids.get("root_note")})
        if ids.get("other_after") is not None and list(ids["other_after"]) != list(r["pre_tables"]):
            bad.append({"what": "append mode changed another collection of the file"})
    if o0.get("pre") and o0["mode"] == "w" and ids.get("root_note") is not None:
        bad.append({"what": "write mode kept an attribute of the replaced file"})
    if ids["cellkeys"] != sorted(names):
        bad.append({"what": "members of /cells", "got": ids["cellkeys"], "expected": sorted(names)})
    shared = case["shared_extra"] or {}
    for n in names:
        got = r["cells"][n]
        cell = case["cells"][n]
        if not isinstance(got, dict):
            bad.append({"what": "cell cannot be read through cooler.Cooler", "cell": n, "got": got})
            continue
        o_ = case.get("opts") or {}
        symm = o_.get("symm", True)
        if got["count_dtype"] != count_dtype_name(case):
            bad.append({"what": "dtype of the count column read back", "cell": n, "got": got["count_dtype"], "expected": count_dtype_name(case)})
        e_ = ids["cells"].get(n) or {}
        if e_ and e_["pixel_dtypes"].get("count") != count_dtype_name(case):
            bad.append({"what": "stored dtype of pixels/count", "cell": n, "got": e_["pixel_dtypes"].get("count"), "expected": count_dtype_name(case)})
        if o_.get("extra"):
            xn, xt = o_["extra"]
            if got["xcol"] != list(cell["xcol"]) or got["xcol_dtype"] != np.dtype(xt).name or e_.get("pixel_dtypes", {}).get(xn) != np.dtype(xt).name:
                bad.append({"what": "extra pixel column (values or dtype)", "cell": n, "got": [got["xcol"][:8], got["xcol_dtype"], e_.get("pixel_dtypes", {}).get(xn)],
                            "expected": [list(cell["xcol"])[:8], xt]})
        if o_.get("h5opts") and e_ and e_["count_compression"] != o_["h5opts"]["compression"]:
            bad.append({"what": "h5opts not applied to the cell's pixel datasets", "cell": n, "got": e_["count_compression"]})
        if e_ and e_["storage"] != ("symmetric-upper" if symm else "square"):
            bad.append({"what": "storage-mode of the cell", "cell": n, "got": e_["storage"]})
        if got["pixels"] != [list(p) for p in cell["pixels"]]:
            bad.append({"what": "pixels of the cell", "cell": n, "got": got["pixels"][:10], "expected": [list(p) for p in cell["pixels"]][:10]})
        M = [[0] * nb for _ in range(nb)]
        for i, j, v in cell["pixels"]:
            M[i][j] = v
            if symm:
                M[j][i] = v
        if got["matrix"] != M:
            bad.append({"what": "matrix of the cell", "cell": n})
        for (a, b_, c_, d_), gw in zip(windows_of(case), got["windows"]):
            if gw != [row[c_:d_] for row in M[a:b_]]:
                bad.append({"what": "sub-range matrix fetch", "cell": n, "window": [a, b_, c_, d_], "got": gw})
        rows_of = {ch: [i for i, b0 in enumerate(case["bins"]) if b0[0] == ch] for ch in case["chromnames"]}
        for ch in case["chromnames"]:
            lo, hi = rows_of[ch][0], rows_of[ch][-1] + 1
            if got["by_chrom"][ch] != [row[lo:hi] for row in M[lo:hi]]:
                bad.append({"what": "per-chromosome matrix fetch", "cell": n, "chrom": ch, "got": got["by_chrom"][ch]})
        c0, c1 = case["chromnames"][0], case["chromnames"][-1]
        if got["trans"] != [row[rows_of[c1][0]:rows_of[c1][-1] + 1] for row in M[rows_of[c0][0]:rows_of[c0][-1] + 1]]:
            bad.append({"what": "two-chromosome matrix fetch", "cell": n, "got": got["trans"]})
        # the stored table and its indexes (the schema of a valid collection): rows strictly sorted by (bin1, bin2),
        # bin1_offset[i] = number of rows with bin1 < i, chrom_offset[k] = number of bins of earlier chromosomes
        e2 = ids["cells"].get(n) or {}
        if e2:
            keys = list(zip(e2["raw_bin1"], e2["raw_bin2"]))
            if keys != sorted(set(keys)) or keys != [(p[0], p[1]) for p in cell["pixels"]]:
                bad.append({"what": "stored pixel rows are not the given rows in sorted order", "cell": n, "got": keys[:10]})
            exp_off = [sum(1 for p in cell["pixels"] if p[0] < i) for i in range(nb + 1)]
            if e2["bin1_offset"] != exp_off:
                bad.append({"what": "bin1_offset index", "cell": n, "got": e2["bin1_offset"], "expected": exp_off})
            codes = [case["chromnames"].index(b0[0]) for b0 in case["bins"]]
            exp_coff = [sum(1 for x in codes if x < k) for k in range(len(case["chromnames"]) + 1)]
            if e2["chrom_offset"] != exp_coff:
                bad.append({"what": "chrom_offset index", "cell": n, "got": e2["chrom_offset"], "expected": exp_coff})
        exp_bins = {"chrom": [b[0] for b in case["bins"]], "start": [b[1] for b in case["bins"]], "end": [b[2] for b in case["bins"]]}
        extra = cell["extra"] if case["mode"] == "dict" else shared
        for col, vals in (extra or {}).items():
            exp_bins[col] = list(vals)
        if got["bins"] != exp_bins:
            bad.append({"what": "bin table of the cell", "cell": n, "got": {k: v[:6] for k, v in got["bins"].items()}})
        if got["nnz"] != len(cell["pixels"]) or got["sum"] != sum(p[2] for p in cell["pixels"]):
            bad.append({"what": "nnz/sum of the cell", "cell": n, "got": [got["nnz"], got["sum"]]})
        e = ids["cells"].get(n)
        if e is None:
            continue
        for col in ("chrom", "start", "end"):
            if e.get("bins/" + col) != ids["root"].get("bins/" + col):
                bad.append({"what": "bin column is not the root's object (not stored once)", "cell": n, "column": col})
        if e["chroms"] != ids["root"]["chroms"]:
            bad.append({"what": "chroms is not the root's object", "cell": n})
        for col in (extra or {}):
            if e.get("bins/" + col) is None:
                bad.append({"what": "extra bin column missing", "cell": n, "column": col})
            elif e["bins/" + col] == ids["root"].get("bins/" + col) or any(
                    e["bins/" + col] == (ids["cells"].get(m) or {}).get("bins/" + col) for m in names if m != n):
                bad.append({"what": "extra bin column is shared between cells", "cell": n, "column": col})
    return bad


# ------------------------------------------------------------------ model
IMPORTS = "From Cooler Require Import Model.Scool."


def cols_lit(d):
    return C.lst([C.tup(C.s(k), G.coq_payload(v)) for k, v in d.items()])


def pixel_cols(case, cell, px, b1):
    o = case.get("opts") or {}
    fl = o.get("count_dtype") == "float64"
    d = {"bin1_id": ("I", b1), "bin2_id": ("I", [p[1] for p in px]), "count": ("I", [scaled(p[2]) if fl else p[2] for p in px])}
    if o.get("extra"):
        d[o["extra"][0]] = ("I", [scaled(v) if o["extra"][1] == "float64" else v for v in cell["xcol"]])
    return d


def model_expr(case, r):
    names = case["chromnames"]
    codes = [names.index(b[0]) for b in case["bins"]]
    lengths = [max(b[2] for b in case["bins"] if b[0] == n) for n in names]
    nb = len(case["bins"])
    root_chroms = {"name": ("S", names), "length": ("I", lengths)}
    root_bins = {"chrom": ("E", names, codes), "start": ("I", [b[1] for b in case["bins"]]), "end": ("I", [b[2] for b in case["bins"]])}
    if case["mode"] == "single_extra":
        for col, vals in case["shared_extra"].items():
            root_bins[col] = ("I", list(vals))
    coff = [sum(1 for x in codes if x < i) for i in range(len(names) + 1)]
    cells = []
    for n in case["order"]:
        cell = case["cells"][n]
        px = cell["pixels"]
        b1 = [p[0] for p in px]
        off = [sum(1 for x in b1 if x < i) for i in range(nb + 1)]
        extra = cell["extra"] if case["mode"] == "dict" else (case["shared_extra"] or {})
        cells.append("(mkCell %s %s %s %s %s)" % (
            C.s(n), cols_lit({k: ("I", list(v)) for k, v in (extra or {}).items()}),
            cols_lit(pixel_cols(case, cell, px, b1)),
            cols_lit({"chrom_offset": ("I", coff), "bin1_offset": ("I", off)}),
            G.coq_attrs(r["attrs"]["cells"].get(n, {}))))
    o = case.get("opts") or {}
    w_init = "world0"
    if o.get("pre"):
        tables, attrs = r["pre_tables"]
        order = [t for t in ("chroms", "bins", "pixels", "indexes") if t in tables]
        tl = {t: {c: (tuple(pl) if pl[0] != "E" else ("E", pl[1], pl[2])) for c, pl in tables[t].items()} for t in tables}
        w_init = f"(snd (create world0 FA {G.coq_path('/other')} false {G.coq_spec(tl, attrs, order=order)}))"
    mode_w = C.b(o.get("mode", "w") == "w")
    return (f"let r := create_scool {w_init} FA {mode_w} {cols_lit(root_chroms)} {cols_lit(root_bins)} {G.coq_attrs(r['attrs']['root'])} {C.lst(cells)} in "
            f"(fst r, dump_file 6 (snd r) FA, list_scool_cells (snd r) FA, is_scool_file (snd r) FA)")


def probe(fn):
    """the file-level predicates and listings on one path, exceptions as values"""
    from cooler import fileops
    out = {}
    for name, f in (("is_scool_file", fileops.is_scool_file), ("list_scool_cells", fileops.list_scool_cells),
                    ("is_cooler", fileops.is_cooler), ("is_multires_file", fileops.is_multires_file),
                    ("list_coolers", fileops.list_coolers)):
        o, v = G.guarded(f, fn)
        out[name] = (list(v) if isinstance(v, list) else bool(v)) if o == "Ok" else o
    return out


ABSENT = {"is_scool_file": "EOS", "list_scool_cells": "EOS", "is_cooler": False, "is_multires_file": False, "list_coolers": "EOS"}
PLAIN = {"is_scool_file": False, "list_scool_cells": "EOS", "is_cooler": True, "is_multires_file": False, "list_coolers": ["/"]}


def frames_equal(a, b):
    ba, pa = a
    bb, pb = b

    def eq(x, y):
        if isinstance(x, dict):
            return isinstance(y, dict) and list(x) == list(y) and all(eq(x[k], y[k]) for k in x)
        if isinstance(x, list):
            return isinstance(y, list) and len(x) == len(y) and all(eq(u, v) for u, v in zip(x, y))
        if isinstance(x, pd.DataFrame):
            return isinstance(y, pd.DataFrame) and list(x.columns) == list(y.columns) and list(x.dtypes) == list(y.dtypes) and x.equals(y)
        return np.array_equal(np.asarray(x), np.asarray(y))
    return eq(ba, bb) and eq(pa, pb)


def history_pass(ctx, d, rng):
    """state carried between calls in ONE process: the same path before it exists, after create_scool, after being
    overwritten by other cells / another bin table / a plain cooler, after deletion and re-creation; the same input
    objects reused for two calls; one-shot generators for the chunk iterables.  Every step is judged for what is
    stored NOW (returned as ordinary cases for the oracle and the model comparison; the predicates right here)."""
    import copy
    import cooler
    steps = []
    fn = os.path.join(d, "sH.scool")

    def check_probe(tag, exp):
        got = probe(fn)
        if got != exp:
            ctx.fail({"history": tag}, {"what": "file-level predicates/listings on the reused path", "phase": tag, "got": got, "expected": exp}, None)

    def plain_case():
        while True:
            c = gen_case(rng)
            if "opts" not in c:
                return c
    A = plain_case()
    B = plain_case()
    while len(B["bins"]) == len(A["bins"]) or set(B["order"]) & set(A["order"]):
        B = plain_case()
    A2 = copy.deepcopy(A)                 # same bin table (same nbins), other cells
    A2["order"] = ["n_" + n for n in A["order"]][::-1] + ["extra cell"]
    A2["cells"] = {"n_" + n: {"pixels": c["pixels"][::2], "extra": copy.deepcopy(c["extra"])} for n, c in A["cells"].items()}
    A2["cells"]["extra cell"] = {"pixels": [], "extra": copy.deepcopy(next(iter(A["cells"].values()))["extra"])}
    def check_scool(tag, case):
        exp = {"is_scool_file": True, "list_scool_cells": sorted(["/cells/" + n for n in case["order"]], key=natkey),
               "is_cooler": False, "is_multires_file": False,
               "list_coolers": sorted(["/cells/" + n for n in case["order"]], key=natkey)}
        check_probe(tag, exp)
    check_probe("before the file exists", ABSENT)
    steps.append((A, run_impl(d, "H", A)))
    check_scool("first single-cell file", A)
    steps.append((B, run_impl(d, "H", B)))                       # overwritten: other cells, other number of bins
    check_scool("overwritten by other cells and another bin table", B)
    cooler.create_cooler(fn, pd.DataFrame(A["bins"], columns=["chrom", "start", "end"]),
                         pd.DataFrame({"bin1_id": [0], "bin2_id": [0], "count": [1]}))
    check_probe("overwritten by a plain cooler", PLAIN)
    steps.append((A2, run_impl(d, "H", A2)))                     # a single-cell file again, same nbins as A, other cells
    check_scool("single-cell file again after the plain cooler", A2)
    steps.append((A, run_impl(d, "H", A)))                       # and the first content once more
    # the same input objects for two consecutive calls (same path, then another path)
    given = frames(A2)
    keep = copy.deepcopy(given)
    steps.append((A2, run_impl(d, "H", A2, given)))
    steps.append((A2, run_impl(d, "H2", A2, given)))
    if not frames_equal(given, keep):
        ctx.fail({"history": "input reuse"}, {"what": "create_scool modified its input objects (bins / cell pixel frames)"}, None)
    # one-shot generators vs lists for the chunk iterables
    Gc = copy.deepcopy(A)
    Gc["opts"] = {"count_dtype": "default", "extra": None, "h5opts": None, "mode": "w", "symm": True, "chunks": 2, "flags": {},
                  "pre": False, "ensure_sorted": False, "ordered": None, "as_dict": False, "shuffle": False, "perm_seed": 0}
    bl, pl = frames(Gc)
    steps.append((Gc, run_impl(d, "H", Gc, (bl, {n: (ch for ch in chunks) for n, chunks in pl.items()}))))
    steps.append((Gc, run_impl(d, "H", Gc, (bl, pl))))
    for f_ in (fn, os.path.join(d, "sH2.scool")):
        try:
            os.remove(f_)
        except OSError:
            pass
    check_probe("after the file is deleted", ABSENT)
    steps.append((B, run_impl(d, "H", B)))                       # re-created on the same path after deletion
    check_probe_scool = probe(fn)
    if check_probe_scool["is_scool_file"] is not True or check_probe_scool["is_cooler"] is not False:
        ctx.fail({"history": "re-created"}, {"what": "predicates after re-creation", "got": check_probe_scool}, None)
    os.remove(fn)
    return [(c, "history", r) for c, r in steps]


def run(ctx):
    import warnings
    warnings.filterwarnings("ignore")
    thorough = ctx.tier == "thorough"
    rng = ctx.rng
    d = str(ctx.tmp / "scool")
    os.makedirs(d, exist_ok=True)
    cases = [(c, "corpus") for c in corpus()]
    import copy
    for symm in (False, True):
        for tc in ("default", True, False):
            for lower in (False, True):
                if symm and lower and tc is False:
                    continue                      # upper storage with the check switched off: not a documented combination
                cs = copy.deepcopy(CORPUS_SORT)
                cs["opts"].update({"symm": symm, "shuffle": False, "ensure_sorted": False, "flags": {} if tc == "default" else {"triucheck": tc}})
                if lower:
                    cs["cells"]["u1"]["pixels"] = sorted([(0, 1, 1), (3, 0, 2), (1, 1, 3), (4, 2, 4), (3, 3, 5), (2, 4, 6)])
                    cs["cells"]["u2"]["pixels"] = sorted([(4, 0, 7), (1, 2, 1), (2, 1, 9)])
                if symm and lower:
                    cs["expect_refusal"] = True   # symmetric-upper storage must refuse pixels below the diagonal
                cases.append((cs, "corpus"))
    for spelling in ("dtypes", "dtype"):
        for form in ("full", "partial"):
            for cd, extra in (("float64", None), ("float64", ["score", "int32"]), ("int64", ["w2", "float64"]), ("default", ["score", "int32"])):
                cs = copy.deepcopy(CORPUS_SORT)
                cs["opts"].update({"count_dtype": cd, "extra": extra, "dtype_kw": spelling, "dtypes_form": form, "shuffle": False, "ensure_sorted": False})
                for n_, c_ in cs["cells"].items():
                    if cd == "float64":
                        c_["pixels"] = [(i, j, v + 0.25 * (1 + (i + j) % 3)) for i, j, v in c_["pixels"]]
                    if cd == "int64":
                        c_["pixels"] = [(i, j, v + 2 ** 33) for i, j, v in c_["pixels"]]
                    if extra:
                        c_["xcol"] = [(k_ * 0.5 - 1.25) if extra[1] == "float64" else 7 * k_ - 3 for k_ in range(len(c_["pixels"]))]
                cases.append((cs, "corpus"))
    for form in ("empty", "none"):
        cs = copy.deepcopy(CORPUS_SORT)
        cs["opts"].update({"dtype_kw": "dtype" if form == "empty" else "dtypes", "dtypes_form": form, "extra": ["w2", "float64"], "shuffle": False})
        for c_ in cs["cells"].values():
            c_["xcol"] = [0.5 * k_ for k_ in range(len(c_["pixels"]))]
        cases.append((cs, "corpus"))
    for ordered, chunks, as_dict in ((None, None, False), (False, None, False), (True, 2, False), (None, None, True)):
        cs = copy.deepcopy(CORPUS_SORT)
        cs["opts"].update({"ordered": ordered, "chunks": chunks, "as_dict": as_dict})
        cases.append((cs, "corpus"))
    for _ in range(700 if thorough else 150):
        cases.append((gen_case(rng), "random"))
    results = []
    roundtrips = []
    for k, (case, kind) in enumerate(cases):
        r = run_impl(d, k, case)
        results.append(r)
        if not case.get("opts") and r["outcome"] == "Ok" and r.get("listing", ["", []])[0] == "Ok" and (kind == "corpus" or k % 5 == 0):
            # round trip: the paths listed for this file are fed back as the keys of a second create_scool
            # (a copy, or a subset when there are several cells)
            listed = list(r["listing"][1])
            if len(listed) > 2:
                listed = listed[::2] + listed[-1:]
            names2 = []
            for p_ in listed:
                if p_.split("/")[-1] in case["cells"] and p_.split("/")[-1] not in names2:
                    names2.append(p_.split("/")[-1])
            if names2:
                case2 = copy.deepcopy(case)
                case2["order"] = names2
                case2["cells"] = {n: case2["cells"][n] for n in names2}
                case2["keys"] = {p_.split("/")[-1]: p_ for p_ in listed}
                roundtrips.append((case2, "roundtrip", run_impl(d, f"{k}rt", case2)))
                try:
                    os.remove(os.path.join(d, f"s{k}rt.scool"))
                except OSError:
                    pass
        try:
            os.remove(os.path.join(d, f"s{k}.scool"))
        except OSError:
            pass
    todo = [(case, kind, r) for (case, kind), r in zip(cases, results)] + roundtrips
    for _ in range(4 if thorough else 2):
        todo += history_pass(ctx, d, rng)
    exprs = [model_expr(case, r) for case, kind, r in todo if r["outcome"] == "Ok" and "attrs" in r]
    vals = iter(C.coq_eval(IMPORTS, exprs, shard=30, jobs=4, timeout=900, tmpdir=ctx.tmp / "model"))
    for case, kind, r in todo:
        distinct = len({tuple(map(tuple, c["pixels"])) for c in case["cells"].values()}) >= 2
        ctx.case(case, nontrivial=distinct, kind=f"{kind}:{case['mode']}:{len(case['order'])}" + (':opts' if case.get('opts') else ''))
        for b in oracle(case, r):
            ctx.fail(case, b, None)
        if r["outcome"] != "Ok" or "attrs" not in r:
            continue
        e, dump, listing, isf = next(vals)
        ctx.compare("outcome", case, r["outcome"], G.model_outcome(e))
        ctx.compare("raw tree of the single-cell file", case, r["dump"], G.canon_dump(G.model_dump(dump)))
        lo, lv = listing
        ctx.compare("list_scool_cells", case, [r["listing"][0], sorted(r["listing"][1])],
                    [G.model_outcome(lo), sorted(G.pstr(p) for p in lv)])
        ctx.compare("is_scool_file", case, r["is_scool"], (isf[1] if isinstance(isf, tuple) and isf[0] == "Some" else isf))


def replay(ctx, case):
    import warnings
    warnings.filterwarnings("ignore")
    if "history" in case:
        import random
        d = str(ctx.tmp / "replay")
        os.makedirs(d, exist_ok=True)
        n0 = len(ctx.failures)
        bad = []
        for c_, _, r_ in history_pass(ctx, d, random.Random(1)):
            bad += oracle(c_, r_)
        for b in bad + [f[1] for f in ctx.failures[n0:]]:
            print("  ", str(b)[:300])
        return not bad and len(ctx.failures) == n0
    case = dict(case)
    case["bins"] = [tuple(b) for b in case["bins"]]
    for c in case["cells"].values():
        c["pixels"] = [tuple(p) for p in c["pixels"]]
    d = str(ctx.tmp / "replay")
    os.makedirs(d, exist_ok=True)
    r = run_impl(d, 0, case)
    bad = oracle(case, r)
    for b in bad:
        print("  ", b)
    return not bad
