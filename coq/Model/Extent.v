(** C04  Genomic range -> bin extent.
    core/_rangequery.py:_region_to_extent (fixed-width and variable-width path),
    util.parse_region (bounds), api.Cooler.extent/offset, bins()/pixels()/matrix() fetch,
    util.bedslice / GenomeSegmentation.fetch.          No proofs here. *)
From Cooler Require Export Model.Bins.

(** A bin table is given as its chromosome blocks (block i = the bins of chromosome id i,
    see [valid_blocks_b]); the stored table is [concat blocks]. *)
Definition table (blocks : list (list bin)) : list bin := concat blocks.

(** indexes/chrom_offset[c] : number of bins of the chromosomes before c
    (contract of _create.index_bins on a table in chromosome blocks; nchroms+1 entries) *)
Definition chrom_offset (blocks : list (list bin)) (c : nat) : Z := zlen (concat (firstn c blocks)).

(** Cooler.chromsizes[c] : `end` of the last bin of the chromosome *)
Definition chrom_len (blk : list bin) : Z := bend (last blk (0, 0, 0)).
Definition chromsizes (blocks : list (list bin)) : list Z := map chrom_len blocks.

(** util.parse_region on an already tokenised region (chromosome id or unknown label,
    optional start, optional end) against the chromosome lengths.
    None = ValueError (unknown label / end < start / out of bounds). *)
Definition parse_region (sizes : list Z) (c : nat) (s e : option Z) : option (nat * Z * Z) :=
  match nth_error sizes c with
  | None => None                                   (* "Unknown sequence label" *)
  | Some L =>
      let s' := match s with Some v => v | None => 0 end in
      let e' := match e with Some v => v | None => L end in
      if e' <? s' then None                        (* "End cannot be less than start" *)
      else if (s' <? 0) || (L <? e') then None     (* "Genomic region out of bounds" *)
      else Some (c, s', e')
  end.

(** _region_to_extent, binsize is not None:
      chrom_offset[cid] + int(floor(start / binsize)),  chrom_offset[cid] + int(ceil(end / binsize)) *)
Definition region_to_extent_fixed (blocks : list (list bin)) (c : nat) (s e b : Z) : Z * Z :=
  (chrom_offset blocks c + s / b, chrom_offset blocks c + cdiv e b).

(** _region_to_extent, binsize is None:
      chrom_bins = bins/start[chrom_lo:chrom_hi]
      chrom_lo + searchsorted(chrom_bins, start, "right") - 1,  chrom_lo + searchsorted(chrom_bins, end, "left") *)
Definition region_to_extent_var (blocks : list (list bin)) (c : nat) (s e : Z) : Z * Z :=
  let lo := chrom_offset blocks c in
  let hi := chrom_offset blocks (S c) in
  let starts := map bstart (slice (table blocks) lo hi) in
  (lo + (searchsorted_right starts s - 1), lo + searchsorted_left starts e).

(** the path is chosen by the bin size the file reports (info["bin-size"] = get_binsize(bins) at creation) *)
Definition region_to_extent (blocks : list (list bin)) (c : nat) (s e : Z) : Z * Z :=
  match get_binsize (table blocks) with
  | Some b => region_to_extent_fixed blocks c s e b
  | None => region_to_extent_var blocks c s e
  end.

(** Cooler.extent(region) / Cooler.offset(region) : parse_region, then the extent *)
Definition extent (blocks : list (list bin)) (c : nat) (s e : option Z) : option (Z * Z) :=
  match parse_region (chromsizes blocks) c s e with
  | None => None
  | Some (c', s', e') => Some (region_to_extent blocks c' s' e')
  end.
Definition offset (blocks : list (list bin)) (c : nat) (s e : option Z) : option Z :=
  option_map fst (extent blocks c s e).

(** Cooler.bins().fetch(region) = bins()[lo:hi] *)
Definition bins_fetch (blocks : list (list bin)) (c : nat) (s e : option Z) : option (list bin) :=
  match extent blocks c s e with
  | None => None
  | Some (lo, hi) => Some (slice (table blocks) lo hi)
  end.

(** indexes/bin1_offset[k] : number of pixels whose bin1_id is < k (contract of index_pixels
    on a table sorted by bin1_id).  A pixel row here is (bin1, bin2). *)
Definition bin1_offset (px : list (Z * Z)) (k : Z) : Z := zlen (filter (fun p => fst p <? k) px).

(** Cooler.pixels().fetch(region) = pixels()[bin1_offset[lo] : bin1_offset[hi]] *)
Definition pixels_fetch_rows (px : list (Z * Z)) (lo hi : Z) : list (Z * Z) :=
  slice px (bin1_offset px lo) (bin1_offset px hi).
Definition pixels_fetch (blocks : list (list bin)) (px : list (Z * Z)) (c : nat) (s e : option Z)
  : option (list (Z * Z)) :=
  match extent blocks c s e with
  | None => None
  | Some (lo, hi) => Some (pixels_fetch_rows px lo hi)
  end.

(** Cooler.matrix().fetch(region, region2) = matrix()[i0:i1, j0:j1] : the bounding box handed to
    the 2D range query (property C03) *)
Definition matrix_fetch_box (blocks : list (list bin)) (r1 r2 : nat * option Z * option Z)
  : option (Z * Z * Z * Z) :=
  match extent blocks (fst (fst r1)) (snd (fst r1)) (snd r1),
        extent blocks (fst (fst r2)) (snd (fst r2)) (snd r2) with
  | Some (i0, i1), Some (j0, j1) => Some (i0, i1, j0, j1)
  | _, _ => None
  end.

(** util.bedslice / GenomeSegmentation.fetch on the group of one chromosome (after parse_region):
      if start > 0 or end < chromsizes[chrom]:
          lo = result["end"].searchsorted(start, "right")
          hi = lo + result["start"][lo:].searchsorted(end, "left")
          result = result.iloc[lo:hi]                                      *)
Definition bedslice_range (blk : list bin) (L s e : Z) : Z * Z :=
  if (0 <? s) || (e <? L) then
    let lo := searchsorted_right (map bend blk) s in
    let hi := lo + searchsorted_left (map bstart (skipn (Z.to_nat lo) blk)) e in
    (lo, hi)
  else (0, zlen blk).
Definition bedslice (blk : list bin) (L s e : Z) : list bin :=
  let '(lo, hi) := bedslice_range blk L s e in slice blk lo hi.
Definition segmentation_fetch (blocks : list (list bin)) (c : nat) (s e : option Z) : option (list bin) :=
  match parse_region (chromsizes blocks) c s e with
  | None => None
  | Some (c', s', e') =>
      match nth_error blocks c' with
      | None => None
      | Some blk => Some (bedslice blk (chrom_len blk) s' e')
      end
  end.

(** executable reading of the property: bin x of chromosome c overlaps [s, e) *)
Definition overlaps_b (c : nat) (s e : Z) (x : bin) : bool :=
  (bchrom x =? Z.of_nat c) && (bstart x <? e) && (s <? bend x).
