(** Integration proofs for C04 / C05:
    - matrix().fetch(r1, r2) and pixels().fetch(r) on a schema-valid stored collection (C02's ValidCSR),
      through C04's extent theorem and the end-to-end range-query theorem of C03;
    - the pixel table `cooler cload pairs` builds from valid records satisfies the hypotheses of C02's
      create_valid, so the written collection is ValidCSR and stores the multiplicities. *)
From Cooler Require Import Model.Fetch Model.Ingest Proofs.BinsProofs Proofs.PixelsProofs Proofs.ExtentProofs Proofs.IngestProofs.
From Cooler Require Model.Index Proofs.IndexProofs Proofs.QueryProofs Proofs.EndToEnd.
From Coq Require Import ZifyBool Sorted Permutation.
Ltac Zify.zify_post_hook ::= Z.to_euclidean_division_equations.

(* ------------------------------------------------------------ the ids an extent stands for *)
Lemma slice_zrange n lo hi : 0 <= lo <= hi -> hi <= Z.of_nat n ->
  slice (zrange 0 n) lo hi = zrange lo (Z.to_nat (hi - lo)).
Proof.
  intros H1 H2. unfold slice.
  replace n with (Z.to_nat lo + (Z.to_nat (hi - lo) + (n - Z.to_nat hi)))%nat by lia.
  rewrite !QueryProofs.zrange_app.
  rewrite skipn_app, skipn_all2 by (rewrite zrange_length; lia).
  rewrite zrange_length, Nat.sub_diag. cbn [app skipn].
  rewrite firstn_app, zrange_length, Nat.sub_diag. cbn [firstn]. rewrite app_nil_r.
  rewrite firstn_all2 by (rewrite zrange_length; lia). f_equal. lia.
Qed.

Lemma zlen_table_offset blocks : chrom_offset blocks (length blocks) = zlen (table blocks).
Proof. unfold chrom_offset, table. now rewrite firstn_all. Qed.

Lemma extent_within_table blocks i blk : nth_error blocks i = Some blk ->
  chrom_offset blocks (S i) <= zlen (table blocks).
Proof.
  intros Hi. rewrite <- zlen_table_offset. apply chrom_offset_le.
  assert (i < length blocks)%nat by (apply nth_error_Some; congruence). lia.
Qed.

(** a valid non-empty region resolves, and its extent is exactly the ascending list of the ids of the bins of
    that chromosome overlapping it *)
Theorem extent_is_overlap_ids blocks i blk s e :
  ValidBlocks blocks -> nth_error blocks i = Some blk -> 0 <= s < e -> e <= chrom_len blk ->
  exists lo hi, extent blocks i (Some s) (Some e) = Some (lo, hi) /\
    0 <= lo /\ lo < hi /\ hi <= zlen (table blocks) /\
    (forall k, lo <= k < hi <-> bin_overlaps blocks i s e k = true) /\
    zrange lo (Z.to_nat (hi - lo)) = overlap_ids blocks i s e.
Proof.
  intros HV Hi Hse HeL. unfold extent, chromsizes.
  rewrite (parse_region_complete _ i (Some s) (Some e) (chrom_len blk)); cbn [dflt]; try lia.
  2:{ now rewrite nth_error_map, Hi. }
  pose proof (extent_overlap blocks i blk s e HV Hi Hse HeL) as H.
  destruct (region_to_extent blocks i s e) as [lo hi]. destruct H as (Hiff & Hlo & Hhi).
  pose proof (chrom_offset_nonneg blocks i) as Hoff. pose proof (extent_within_table blocks i blk Hi) as Hin.
  assert (Hk : forall k, lo <= k < hi <-> bin_overlaps blocks i s e k = true).
  { intros k. unfold bin_overlaps. split.
    - intros Hr. destruct (proj1 (Hiff (Z.to_nat k)) ltac:(lia)) as (x & Hx & Hc & Hb & He).
      rewrite Hx. unfold overlaps_b. lia.
    - destruct (nth_error (table blocks) (Z.to_nat k)) as [x|] eqn:Hx; [|discriminate].
      intros Hp. assert (lo <= Z.of_nat (Z.to_nat k) < hi); [|lia].
      apply Hiff. exists x. unfold overlaps_b in Hp. split; [exact Hx|]. lia. }
  exists lo, hi. split; [reflexivity|]. split; [lia|]. split; [lia|]. split; [lia|]. split; [exact Hk|].
  unfold overlap_ids. rewrite <- (slice_zrange (length (table blocks)) lo hi) by (unfold zlen in Hin; lia).
  apply filter_slice; [lia|].
  intros k x Hkx.
  assert (Hkl : (k < length (zrange 0 (length (table blocks))))%nat) by (apply nth_error_Some; congruence).
  rewrite zrange_length in Hkl. rewrite (nth_error_zrange 0 _ k Hkl) in Hkx. injection Hkx as <-.
  rewrite <- Hk. lia.
Qed.

(* ------------------------------------------------------------ matrix().fetch(region1, region2) *)
(** definitional: a two-region fetch IS the index-slice query on the two extents *)
Theorem fetch2_eq_slice blocks epx off cs fill form r1 r2 i0 i1 j0 j1 :
  extent blocks (fst (fst r1)) (snd (fst r1)) (snd r1) = Some (i0, i1) ->
  extent blocks (fst (fst r2)) (snd (fst r2)) (snd r2) = Some (j0, j1) ->
  matrix_fetch_records blocks epx off cs fill form r1 r2 = matrix_records epx off cs fill form (i0, i1, j0, j1).
Proof. intros H1 H2. unfold matrix_fetch_records, matrix_fetch_box. now rewrite H1, H2. Qed.

Section StoredFetch.
  Variable c : Index.cooler.
  Variable blocks : list (list bin).
  Hypothesis HC : IndexProofs.ValidCSR c.
  Hypothesis HV : ValidBlocks blocks.
  Hypothesis Hn : zlen (table blocks) = Index.nbins c.
  Let px := Index.pixels_of c.
  Let epx := epx_of px.
  Let off := Index.bin1_offset c.

  (** on a schema-valid symmetric-upper collection the dense two-region fetch is the symmetric matrix restricted
      to (bins overlapping region 1) x (bins overlapping region 2), rows and columns in ascending bin order *)
  Theorem matrix_fetch_symm cs i1 blk1 s1 e1 i2 blk2 s2 e2 :
    Index.symmetric_upper c = true -> 1 <= cs ->
    nth_error blocks i1 = Some blk1 -> 0 <= s1 < e1 -> e1 <= chrom_len blk1 ->
    nth_error blocks i2 = Some blk2 -> 0 <= s2 < e2 -> e2 <= chrom_len blk2 ->
    matrix_fetch_dense blocks epx off cs true (i1, Some s1, Some e1) (i2, Some s2, Some e2) =
    Some (map (fun i => map (fun j => symm px i j) (overlap_ids blocks i2 s2 e2)) (overlap_ids blocks i1 s1 e1)).
  Proof.
    intros Hsym Hcs Hi1 Hse1 HeL1 Hi2 Hse2 HeL2.
    destruct (extent_is_overlap_ids blocks i1 blk1 s1 e1 HV Hi1 Hse1 HeL1) as (a0 & a1 & Ea & Ha0 & Ha & Ha1 & _ & Hida).
    destruct (extent_is_overlap_ids blocks i2 blk2 s2 e2 HV Hi2 Hse2 HeL2) as (b0 & b1 & Eb & Hb0 & Hb & Hb1 & _ & Hidb).
    unfold matrix_fetch_dense, matrix_fetch_box. cbn [fst snd]. rewrite Ea, Eb. cbn [matrix_records].
    destruct (EndToEnd.stored_cooler_range_queries c cs a0 a1 b0 b1 HC Hcs ltac:(lia) ltac:(lia) ltac:(lia) ltac:(lia) ltac:(lia) ltac:(lia))
      as [_ Hf]. destruct (Hf Hsym) as (out & Ho & _ & Hd).
    fold px epx off in Ho, Hd. rewrite Ho, Hd, Hida, Hidb. reflexivity.
  Qed.

  (** the pixel-frame form (as_pixels / non-symmetric engine) returns exactly the stored records whose bin1 overlaps
      region 1 and whose bin2 overlaps region 2, in table order *)
  Theorem matrix_fetch_pixels cs i1 blk1 s1 e1 i2 blk2 s2 e2 :
    1 <= cs ->
    nth_error blocks i1 = Some blk1 -> 0 <= s1 < e1 -> e1 <= chrom_len blk1 ->
    nth_error blocks i2 = Some blk2 -> 0 <= s2 < e2 -> e2 <= chrom_len blk2 ->
    matrix_fetch_records blocks epx off cs true AsPixels (i1, Some s1, Some e1) (i2, Some s2, Some e2) =
    Some (filter (fun r => bin_overlaps blocks i1 s1 e1 (row (snd r)) && bin_overlaps blocks i2 s2 e2 (col (snd r))) epx).
  Proof.
    intros Hcs Hi1 Hse1 HeL1 Hi2 Hse2 HeL2.
    destruct (extent_is_overlap_ids blocks i1 blk1 s1 e1 HV Hi1 Hse1 HeL1) as (a0 & a1 & Ea & Ha0 & Ha & Ha1 & Hka & _).
    destruct (extent_is_overlap_ids blocks i2 blk2 s2 e2 HV Hi2 Hse2 HeL2) as (b0 & b1 & Eb & Hb0 & Hb & Hb1 & Hkb & _).
    unfold matrix_fetch_records, matrix_fetch_box. cbn [fst snd]. rewrite Ea, Eb. cbn [matrix_records].
    destruct (EndToEnd.stored_cooler_range_queries c cs a0 a1 b0 b1 HC Hcs ltac:(lia) ltac:(lia) ltac:(lia) ltac:(lia) ltac:(lia) ltac:(lia))
      as [Hd _]. fold px epx off in Hd. rewrite Hd. f_equal. apply filter_ext. intros r.
    unfold QueryProofs.in_window.
    specialize (Hka (row (snd r))). specialize (Hkb (col (snd r))).
    destruct (bin_overlaps blocks i1 s1 e1 (row (snd r))), (bin_overlaps blocks i2 s2 e2 (col (snd r))); lia.
  Qed.

End StoredFetch.

(* ------------------------------------------------------------ pixels().fetch(region) *)
Lemma bin1_is_rows (c : Index.cooler) : IndexProofs.ValidCSR c -> Index.bin1 c = map row (Index.pixels_of c).
Proof.
  intros (H1 & H2 & H3 & _). unfold Index.pixels_of. symmetry.
  apply EndToEnd.map_row_pixels_of; unfold zlen in *; lia.
Qed.

(** the stored index entry k is the number of records with bin1 < k *)
Lemma stored_offset (c : Index.cooler) k : IndexProofs.ValidCSR c -> 0 <= k <= Index.nbins c ->
  znth (Index.bin1_offset c) k 0 = zlen (filter (fun p => row p <? k) (Index.pixels_of c)).
Proof.
  intros HC Hk. pose proof (bin1_is_rows c HC) as Hb. destruct HC as (_ & _ & _ & _ & _ & _ & Hoff & _).
  unfold znth. rewrite Hoff. rewrite IndexProofs.offsets_of_nth by lia. rewrite Z2Nat.id by lia.
  unfold Index.count_lt. rewrite Hb. apply EndToEnd.zlen_filter_map.
Qed.

(** on a list sorted by an integer key, the positions between the two counts "#key < lo" and "#key < hi"
    hold exactly the elements with lo <= key < hi  (generic form of ExtentProofs.pixels_fetch_rows_spec) *)
Lemma sorted_split_by {A} (g : A -> Z) (l : list A) k : StronglySorted Z.le (map g l) ->
  l = filter (fun p => g p <? k) l ++ filter (fun p => negb (g p <? k)) l.
Proof.
  induction l as [|a l IH]; intros HS; [reflexivity|].
  cbn [map] in HS. inversion HS as [|? ? HS' Hall]; subst. cbn [filter].
  destruct (g a <? k) eqn:E; cbn [negb app].
  - f_equal. now apply IH.
  - rewrite (filter_none (fun p => g p <? k) l), (filter_all (fun p => negb (g p <? k)) l); [reflexivity| |].
    + intros x Hx. rewrite Forall_forall in Hall. specialize (Hall (g x) (in_map g _ _ Hx)). lia.
    + intros x Hx. rewrite Forall_forall in Hall. specialize (Hall (g x) (in_map g _ _ Hx)). lia.
Qed.

Lemma sorted_filter_by {A} (g : A -> Z) (p : A -> bool) l :
  StronglySorted Z.le (map g l) -> StronglySorted Z.le (map g (filter p l)).
Proof.
  induction l as [|a l IH]; intros HS; [constructor|].
  cbn [map] in HS. inversion HS as [|? ? HS' Hall]; subst. cbn [filter].
  destruct (p a); [|now apply IH]. cbn [map]. constructor; [now apply IH|].
  rewrite Forall_forall in *. intros y Hy. apply in_map_iff in Hy as [x [<- Hx]].
  apply filter_In in Hx as [Hx _]. apply Hall. now apply in_map.
Qed.

Theorem slice_sorted_range {A} (g : A -> Z) (l : list A) lo hi :
  StronglySorted Z.le (map g l) -> lo <= hi ->
  slice l (zlen (filter (fun p => g p <? lo) l)) (zlen (filter (fun p => g p <? hi) l)) =
  filter (fun p => (lo <=? g p) && (g p <? hi)) l.
Proof.
  intros HS Hle. unfold slice, zlen.
  set (A0 := filter (fun p => g p <? lo) l).
  set (R := filter (fun p => negb (g p <? lo)) l).
  assert (Hl : l = A0 ++ R) by (apply sorted_split_by; exact HS).
  assert (HSR : StronglySorted Z.le (map g R)) by (apply sorted_filter_by; exact HS).
  set (B := filter (fun p => g p <? hi) R).
  assert (HR : R = B ++ filter (fun p => negb (g p <? hi)) R) by (apply sorted_split_by; exact HSR).
  assert (Hhi : filter (fun p => g p <? hi) l = A0 ++ B).
  { rewrite Hl at 1. rewrite filter_app. f_equal. unfold A0. rewrite filter_filter.
    apply filter_ext. intros a. lia. }
  rewrite Hhi, app_length.
  replace (Z.to_nat (Z.of_nat (length A0 + length B) - Z.of_nat (length A0))) with (length B) by lia.
  rewrite Nat2Z.id. rewrite Hl at 1. rewrite skipn_app, skipn_all, Nat.sub_diag. cbn [app skipn].
  rewrite HR at 1. rewrite firstn_app, firstn_all, Nat.sub_diag. cbn [firstn]. rewrite app_nil_r.
  unfold B, R. rewrite filter_filter. apply filter_ext. intros a. lia.
Qed.

(** pixels().fetch(region) on a schema-valid collection returns exactly the stored records whose bin1 is a bin of
    the chromosome overlapping the region, in table order *)
Theorem pixels_fetch_stored_spec (c : Index.cooler) blocks i blk s e :
  IndexProofs.ValidCSR c -> ValidBlocks blocks -> zlen (table blocks) = Index.nbins c ->
  nth_error blocks i = Some blk -> 0 <= s < e -> e <= chrom_len blk ->
  pixels_fetch_stored blocks (Index.pixels_of c) (Index.bin1_offset c) (i, Some s, Some e) =
  Some (filter (fun p => bin_overlaps blocks i s e (row p)) (Index.pixels_of c)).
Proof.
  intros HC HV Hn Hi Hse HeL.
  destruct (extent_is_overlap_ids blocks i blk s e HV Hi Hse HeL) as (lo & hi & E & Hlo & Hlh & Hhi & Hk & _).
  unfold pixels_fetch_stored. cbn [fst snd]. rewrite E.
  rewrite !(stored_offset c _ HC) by lia. f_equal.
  rewrite (slice_sorted_range row) by (try lia; destruct HC as (_ & _ & _ & Hs & _); now apply IndexProofs.ssorted_rows_nondecr).
  apply filter_ext. intros p. specialize (Hk (row p)). destruct (bin_overlaps blocks i s e (row p)); lia.
Qed.

(* ============================================================ C05 -> C02 *)
(** every record of the input that lies on listed chromosomes has both (shifted) positions inside its chromosome:
    0 <= pos < L.  This is the hypothesis that EXCLUDES the known finding D2 (pos = L passes validation) as well as
    every rejected input; records on unlisted chromosomes are unconstrained (they are dropped). *)
Definition ValidInput (blocks : list (list bin)) (ob : bool) (recs : list record) : Prop :=
  forall r, In r recs -> known r = true ->
    InChrom blocks (wc1 (to_wrow ob r)) (wa1 (to_wrow ob r)) /\
    InChrom blocks (wc2 (to_wrow ob r)) (wa2 (to_wrow ob r)).

Lemma contains_in_table blocks c a k : contains_b blocks c a k = true -> 0 <= k < zlen (table blocks).
Proof.
  intros H. apply contains_b_spec in H as (Hk & x & Hx & _).
  assert (Z.to_nat k < length (table blocks))%nat by (apply nth_error_Some; congruence). unfold zlen. lia.
Qed.

Section ValidChunk.
  Variable blocks : list (list bin).
  Variables (ob : bool) (ta : tril_action) (recs : list record).
  Hypothesis HV : ValidBlocks blocks.
  Hypothesis Hin : ValidInput blocks ob recs.
  Let f := sanitize1 blocks ob true ta.

  Lemma valid_no_error : ta <> TrilRaise -> existsb is_err (map f recs) = false.
  Proof.
    intros Hta. destruct (existsb is_err (map f recs)) eqn:E; [|reflexivity]. exfalso.
    apply existsb_exists in E as (o & Ho & Herr). apply in_map_iff in Ho as (r & <- & Hr).
    unfold f in Herr. destruct (known r) eqn:Hk.
    - destruct (Hin r Hr Hk) as [H1 H2]. rewrite (sanitize1_valid blocks ob r H1 H2) in Herr.
      destruct (is_tril (to_wrow ob r)); [destruct ta|]; cbn in Herr; congruence.
    - rewrite (unknown_dropped blocks ob true ta r Hk) in Herr. discriminate.
  Qed.

  (** a retained record of a valid input has both bins inside the table, and is upper triangular under reflect/drop *)
  Lemma valid_kept r o : In r recs -> f r = OKeep o ->
    0 <= ob1 o < zlen (table blocks) /\ 0 <= ob2 o < zlen (table blocks) /\
    (ta = TrilReflect \/ ta = TrilDrop -> ob1 o <= ob2 o).
  Proof.
    intros Hr Ho. unfold f in Ho. destruct (accepted_in_range blocks ob ta r o Ho) as [Hk _].
    destruct (Hin r Hr Hk) as [H1 H2].
    destruct (kept_contains blocks ob r HV H1 H2 ta o Ho) as (_ & C1 & C2).
    split; [eapply contains_in_table; eauto|]. split; [eapply contains_in_table; eauto|].
    intros [->| ->].
    - destruct (reflect_upper blocks ob r HV H1 H2) as (o' & Ho' & _ & Hle). rewrite Ho in Ho'. now injection Ho' as <-.
    - rewrite (drop_lower blocks ob r H1 H2) in Ho. destruct (is_tril (to_wrow ob r)) eqn:Et; [discriminate|].
      injection Ho as <-. unfold ob1, ob2. cbn [fst snd]. apply upper_bins; auto. unfold is_tril in Et. lia.
  Qed.

  Lemma in_kept o : In o (flat_map kept (map f recs)) -> exists r, In r recs /\ f r = OKeep o.
  Proof.
    intros H. apply in_flat_map in H as (oc & Hoc & Hk). apply in_map_iff in Hoc as (r & <- & Hr).
    exists r. split; [exact Hr|]. destruct (f r); cbn in Hk; try contradiction. destruct Hk as [<-|[]]. reflexivity.
  Qed.
End ValidChunk.

(* ------------------------------------------------------------ the chromosome column of a valid table *)
Lemma sorted_app (l1 l2 : list Z) : StronglySorted Z.le l1 -> StronglySorted Z.le l2 ->
  (forall x y, In x l1 -> In y l2 -> x <= y) -> StronglySorted Z.le (l1 ++ l2).
Proof.
  intros H1 H2 H. induction H1 as [|a l HS IH Hall]; [exact H2|]. cbn [app]. constructor.
  - apply IH. intros x y Hx Hy. apply H; [now right|exact Hy].
  - apply Forall_app. split; [exact Hall|]. apply Forall_forall. intros y Hy. apply H; [now left|exact Hy].
Qed.

Lemma sorted_const (o : Z) l : (forall x, In x l -> x = o) -> StronglySorted Z.le l.
Proof.
  induction l as [|a l IH]; intros H; constructor.
  - apply IH. intros x Hx. apply H. now right.
  - apply Forall_forall. intros y Hy. rewrite (H a (or_introl eq_refl)), (H y (or_intror Hy)). lia.
Qed.

Lemma blocksfrom_chroms_sorted o blocks : BlocksFrom o blocks -> StronglySorted Z.le (map bchrom (concat blocks)).
Proof.
  induction 1 as [o|o blk rest Hne HT HB IH]; [constructor|].
  cbn [concat]. rewrite map_app. apply sorted_app; [|exact IH|].
  - apply (sorted_const o). intros x Hx. apply in_map_iff in Hx as (y & <- & Hy). eapply tiled_chrom; eauto.
  - intros x y Hx Hy. apply in_map_iff in Hx as (x' & <- & Hx'). apply in_map_iff in Hy as (y' & <- & Hy').
    rewrite (tiled_chrom _ _ _ _ HT Hx'). pose proof (blocksfrom_chrom _ _ HB y' Hy'). lia.
Qed.

Lemma table_chroms blocks : ValidBlocks blocks ->
  IndexProofs.NonDecr (map bchrom (table blocks)) /\
  (forall x, In x (map bchrom (table blocks)) -> 0 <= x < zlen blocks).
Proof.
  intros HV. split.
  - apply (blocksfrom_chroms_sorted 0). now apply valid_blocksfrom.
  - intros x Hx. apply in_map_iff in Hx as (y & <- & Hy). unfold table in Hy.
    apply in_concat in Hy as (blk & Hb & Hy). apply In_nth_error in Hb as (j & Hj).
    destruct (HV j blk Hj) as [_ HT]. rewrite (tiled_chrom _ _ _ _ HT Hy).
    assert (j < length blocks)%nat by (apply nth_error_Some; congruence). unfold zlen. lia.
Qed.

(* ------------------------------------------------------------ what `cooler cload pairs` writes *)
(** For a valid bin table and an input all of whose records on listed chromosomes lie inside their chromosomes
    (ValidInput: this excludes D2), with reflect / drop for symmetric-upper storage (or any non-raising action for
    square storage): the command succeeds; the pixel table it hands to create() is the canonical aggregate of the
    per-record outputs, strictly sorted, inside [0, nbins)^2 and upper triangular; hence (C02_create_valid) the
    collection written is schema-valid, holds exactly that table, and each stored count is the number of input
    records binned to that pixel. *)
Theorem cload_pairs_valid_collection blocks zero_based ta chunks symm :
  ValidBlocks blocks -> ta <> TrilRaise -> (symm = true -> ta = TrilReflect \/ ta = TrilDrop) ->
  ValidInput blocks (negb zero_based) (concat chunks) ->
  let out := flat_map kept (map (sanitize1 blocks (negb zero_based) true ta) (concat chunks)) in
  let px := aggregate_records out in
  cload_pairs blocks zero_based ta chunks = Some px /\
  SSorted px /\
  (forall p, In p px -> 0 <= row p < zlen (table blocks) /\ 0 <= col p < zlen (table blocks)) /\
  (symm = true -> forall p, In p px -> row p <= col p) /\
  (forall k, look px k = zlen (filter (fun o => keqb (okey o) k) out)) /\
  sumZ (map snd px) = zlen out /\
  exists c, Index.create_model (zlen blocks) (map bchrom (table blocks)) px symm = Some c /\
            IndexProofs.ValidCSR c /\ Index.pixels_of c = px /\
            Index.nbins c = zlen (table blocks) /\ Index.symmetric_upper c = symm.
Proof.
  intros HV Hta Hsym Hin out px.
  pose proof (valid_no_error blocks (negb zero_based) ta (concat chunks) Hin Hta) as Hne.
  destruct (aggregate_records_canon out) as [(Hss & Hkeys & _) Hsum]. fold px in Hss, Hkeys, Hsum.
  assert (Hmem : forall p, In p px -> exists r o, In r (concat chunks) /\
                   sanitize1 blocks (negb zero_based) true ta r = OKeep o /\ okey o = fst p).
  { intros p Hp. assert (Hk : In (fst p) (keys px)) by (unfold keys; now apply in_map).
    apply Hkeys in Hk. unfold keys in Hk. rewrite map_map in Hk. cbn [fst] in Hk.
    apply in_map_iff in Hk as (o & Ho & Hino). apply in_kept in Hino as (r & Hr & Hf). eauto. }
  assert (Hrange : forall p, In p px -> 0 <= row p < zlen (table blocks) /\ 0 <= col p < zlen (table blocks)).
  { intros p Hp. destruct (Hmem p Hp) as (r & o & Hr & Hf & Hk).
    destruct (valid_kept blocks (negb zero_based) ta (concat chunks) HV Hin r o Hr Hf) as (H1 & H2 & _).
    unfold row, col. rewrite <- Hk. unfold okey. cbn [fst snd]. lia. }
  assert (Hupper : symm = true -> forall p, In p px -> row p <= col p).
  { intros Hs p Hp. destruct (Hmem p Hp) as (r & o & Hr & Hf & Hk).
    destruct (valid_kept blocks (negb zero_based) ta (concat chunks) HV Hin r o Hr Hf) as (_ & _ & H3).
    unfold row, col. rewrite <- Hk. unfold okey. cbn [fst snd]. apply H3, Hsym, Hs. }
  split.
  { rewrite cload_pairs_spec. unfold collect. rewrite Hne. f_equal. apply aggregate_records_inrange.
    intros o Ho. apply in_kept in Ho as (r & Hr & Hf).
    destruct (valid_kept blocks (negb zero_based) ta (concat chunks) HV Hin r o Hr Hf) as (H1 & _). lia. }
  split; [exact Hss|]. split; [exact Hrange|]. split; [exact Hupper|].
  split; [intros k; apply aggregate_records_multiplicity|]. split; [exact Hsum|].
  destruct (table_chroms blocks HV) as [Hnd Hcr].
  assert (Hzl : zlen (map bchrom (table blocks)) = zlen (table blocks)) by (unfold zlen; now rewrite map_length).
  destruct (IndexProofs.create_valid (zlen blocks) (map bchrom (table blocks)) px symm
              ltac:(unfold zlen; lia) Hnd Hcr Hss ltac:(rewrite Hzl; exact Hrange) Hupper)
    as (c & Hc & HVc & Hpx & Hnb & _ & Hsy).
  exists c. split; [exact Hc|]. split; [exact HVc|]. split; [exact Hpx|]. split; [now rewrite Hnb|exact Hsy].
Qed.
