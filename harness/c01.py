"""C01 - create-then-read round trip returns exactly the matrix that was stored.

Correspondence: cooler.create_cooler (frame / dict / ordered chunk iterator / ArrayLoader) followed by raw h5py
reads, Cooler.pixels()[:], Cooler.matrix(balance=False)[:, :] dense and sparse, Cooler.info, against the Gallina
model coq/Model/Create.v (validate_pixels, write_pixels, create, create_cooler_frame, array_loader, read_pixels,
dense_full, sparse_full, json_word).
Property oracle (never calls the code under test for the expected value): numpy reference built from the input
records (dense array, symmetric completion, sorted triples) and the given metadata / assembly.
"""
from __future__ import annotations

import itertools
import json as stdjson
import os

import numpy as np
import pandas as pd

import coqio as C
import gen_c01 as G

PROP = "C01"
RULE = ("bin tables with 1-3 chromosomes (fixed width with short last bin, variable, single-bin chromosomes), n<=7 bins; "
        "matrices: every 0/1 occupancy pattern of the upper triangle for n<=3 (symmetric-upper) and of the full square for n<=2 "
        "(+ sampled n=3) with distinct values, every weak composition of a sorted stream into 0..4 chunks (empty chunks included), "
        "seeded random sparse/dense/diagonal/empty matrices for n<=7 with values up to 2^31-1, x input form (DataFrame, dict, "
        "ordered chunk iterator of dicts/DataFrames, ArrayLoader with chunksize 1..n+1) x value dtypes/extra columns x h5opts x "
        "random JSON metadata x assembly names; dtype of the input bin-id columns {int8, uint8, int16, uint16, int32, uint32, int64} x {sorted frame, "
        "shuffled frame, shuffled dict, chunk iterator} x storage mode on tables of 12-20 bins and of 300 bins whose pixels reach the highest bin "
        "ids (dense view compared up to 20 bins, sparse view for 300); unordered creation (ordered=False / default for an iterable) over the grid number of chunks 1..17 x max_merge {0,1,2,3,4,10,200} x mergebuf "
        "{1,2,7,2e7} (quick: mergebuf rotating; thorough: full cross + 230 chunks with the default max_merge) with sorted-disjoint / interleaved-with-"
        "duplicates-across-chunks / empty-chunk layouts, shuffled chunk order, ensure_sorted, both storage modes, extra columns; "
        "the boolean creation flags passed as Python bools, numpy booleans and 0/1 ints (a third each) through create_cooler, create and "
        "create_from_unordered; numeric dtype edges: every (input dtype, stored dtype) pair over int8..int64 / uint8..uint64 (+ integral float64 input) for the count and for an "
        "extra column, values at min / max / max+1 / min-1 / -1 / 0 of both types, through frame / dict / ordered chunks / unordered chunks: in-range "
        "values round-trip exactly, a value outside the stored range is refused with a ValueError; "
        "process history: re-iterable input objects (ArrayLoader, list / tuple of chunks, DataFrame, dict) iterated by hand before the creation and fed to "
        "two consecutive creations with different destinations and options; a cooler created and read at a path that is then overwritten by a "
        "different matrix (same / fewer / more bins, other mode, other columns); "
        "one round trip of 1,000,005 records over 2100 bins in which row 1000 begins exactly at record 1,000,000 (frame and 7-chunk iterator; "
        "square mode too in the thorough tier), read back through pixels()[a:b], sparse row fetches of rows 998..1002 and a dense window; "
        "a separate malformed stream (unsorted, duplicates across chunks, out-of-range ids, "
        "integer overflow of the output dtype, more records than max_size) is compared model-vs-code only. "
        "non-trivial = at least 2 stored pixels or >= 2 chunks or an off-diagonal pixel or a non-default option; distinct by case hash")
TRUSTED = ["h5py/HDF5 storage of each column (filters, dtype conversion) is observed through raw reads, not modelled",
           "the full-window read is modelled directly as symm/look of the stored table; the range-query engine is C03's subject"]
ASSUMPTIONS = ["simplejson.loads(simplejson.dumps(d)) == d for JSON-compatible documents (checked on every generated document)",
               "float value columns are exercised with multiples of 1/8 so that every comparison is exact"]
RESIDUE = ["HDF5 filter pipeline and dtype conversion; lossy options (scaleoffset) outside the claim",
           "simplejson round trip is a hypothesis of the metadata theorem",
           "known finding D13: an assembly name that is a JSON literal reads back decoded"]

DEFAULT_COLS = [["count", "int", "int32", "int64"]]
H5OPTS = {
    "default": None,
    "nocomp": {"compression": None},
    "lzf": {"compression": "lzf"},
    "noshuffle": {"shuffle": False},
    "fletcher32": {"fletcher32": True},
    "chunks1": {"chunks": (1,)},
    "gzip1": {"compression": "gzip", "compression_opts": 1},
}
ASSEMBLY_WORDS = ["123", "hg19", "true", "null", "false", "-5", "0", "-0", "0123", "1e5", "2E3", "1e-2", "NaN", "Infinity",
                  "mm10", "ce-11", "e5", "1e", "-", "12a", "unknown", "T2T-CHM13v2", "1_000", "00", "-true", "1e05"]


# --------------------------------------------------------------------------- implementation side
def _scaled(arr, kind):
    a = np.asarray(arr)
    if kind == "float":
        s = a.astype(np.float64) * G.SCALE
        r = np.round(s)
        if not np.all(s == r):
            return None
        return [int(x) for x in r.ravel()]
    return [int(x) for x in a.ravel()]


def build_bins(case):
    """bin table in the representation asked for by case["rep"]: chrom categorical (default) / plain strings, extra
    columns, a non-default index"""
    rep = case.get("rep", {})
    bins = G.table_from_blocks(G.blocks_from_widths(case["widths"]), categorical=rep.get("chrom", "categorical") == "categorical")
    if rep.get("bins_extra"):
        bins["weight"] = np.arange(len(bins), dtype=np.float64) / 4 + 0.5
        bins["tag"] = np.arange(len(bins), dtype=np.int64) * 3 - 2
    if rep.get("bins_index"):
        bins.index = np.arange(len(bins))[::-1] * 10 + 7
    return bins


def _represent(d, form, rep):
    """one table/chunk given as dict of arrays -> the requested representation"""
    if rep.get("colorder") == "reversed":
        d = {k: d[k] for k in reversed(list(d))}
    if rep.get("junk"):
        d = dict(d)
        d["junk"] = np.array(["x%d" % i for i in range(len(d["bin1_id"]))], dtype=object)
    if form == "df":
        df = pd.DataFrame(d)
        if rep.get("px_index"):
            df.index = np.arange(len(df))[::-1] * 3 + 11
        return df
    if rep.get("dictvals") == "series":
        return {k: pd.Series(v) for k, v in d.items()}
    if rep.get("dictvals") == "list":
        return {k: (v.tolist() if k != "junk" else list(v)) for k, v in d.items()}
    return d


BOOL_FLAGS = ("symmetric_upper", "ordered", "boundscheck", "triucheck", "dupcheck", "ensure_sorted")


def _flag_types(kw, how):
    """the boolean creation flags as the caller may well hold them: numpy booleans (e.g. the result of (M == M.T).all()) or 0/1"""
    for k in BOOL_FLAGS:
        if k in kw and isinstance(kw[k], bool):
            kw[k] = (np.True_ if kw[k] else np.False_) if how == "numpy" else int(kw[k])
    return kw


def build_input(case, workdir=None, need_px=True):
    bins, px, kw = _build_input(case, workdir, need_px)
    how = case.get("rep", {}).get("flag_type")
    if how:
        if how == "numpy" and "symmetric_upper" in kw:     # computed the way a user would: from the matrix itself
            kw["symmetric_upper"] = (np.array([[1, 2], [2, 1]]) == np.array([[1, 2], [2, 1]]).T).all() if kw["symmetric_upper"] \
                else (np.array([[1, 2], [3, 1]]) == np.array([[1, 2], [3, 1]]).T).all()
        _flag_types(kw, how)
    return bins, px, kw


def _build_input(case, workdir=None, need_px=True):
    """returns (bins, pixels-argument, kwargs) for create_cooler"""
    import cooler
    from cooler.create import ArrayLoader
    rep = case.get("rep", {})
    bins = build_bins(case)
    cols = case["cols"]
    kw = {"symmetric_upper": case["symm"]}
    names = [c[0] for c in cols]
    if names != ["count"] or rep.get("columns_arg") == "explicit":
        kw["columns"] = names
    if rep.get("columns_arg") == "with_ids":
        kw["columns"] = ["bin2_id"] + names + ["bin1_id"]
    dt = {c[0]: G.np_dtype(c[2]) for c in cols if not (c[0] == "count" and c[2] == "int32") and c[2] != "default"}
    if rep.get("id_out_dtypes"):
        dt.update({"bin1_id": np.int32, "bin2_id": np.int16})
    if dt:
        kw["dtypes"] = pd.Series(dt) if rep.get("dtypes_as") == "series" else dt
    if case.get("h5opts", "default") != "default":
        kw["h5opts"] = dict(H5OPTS[case["h5opts"]])
    if case.get("metadata") is not None:
        kw["metadata"] = case["metadata"]
    if case.get("assembly") is not None:
        kw["assembly"] = case["assembly"]
    for o in ("ensure_sorted", "dupcheck", "boundscheck", "triucheck"):
        if o in case.get("opts", {}):
            kw[o] = case["opts"][o]
    if rep.get("lock"):
        import threading
        kw["lock"] = threading.Lock()
    if rep.get("mode"):
        kw["mode"] = rep["mode"]
    form = case["form"]
    idt = case.get("id_dtype", "int64")
    if not need_px:                                       # the caller supplies the (reused) input object
        assert form in ("frame", "dict", "chunks", "array")
        if form in ("chunks", "array"):
            kw["ordered"] = True
        return bins, None, kw
    if form in ("frame", "dict"):
        d = G.make_chunk(case["rows"], cols, "dict", idt)
        px = _represent(d, "df" if form == "frame" else "dict", rep)
    elif form in ("chunks", "unordered"):
        parts = G.split_rows(case["rows"], case["cuts"])
        forms = case.get("chunkforms") or ["dict"] * len(parts)
        chunks = [_represent(G.make_chunk(p, cols, "dict", idt), f, rep) for p, f in zip(parts, forms)]
        if form == "unordered":
            u = rep["unordered"]
            chunks = [chunks[i] for i in u["order"]]
            if not u.get("omit_ordered"):         # ordered=False is the default for an iterable of chunks
                kw["ordered"] = False
            for k in ("mergebuf", "max_merge", "delete_temp"):
                if k in u:
                    kw[k] = u[k]
            if u.get("temp_dir"):
                td = os.path.join(workdir or ".", "tmpd")
                os.makedirs(td, exist_ok=True)
                kw["temp_dir"] = td
        else:
            kw["ordered"] = True
        ik = rep.get("iterkind", "iterator")
        if ik == "generator":
            px = (c for c in chunks)
        elif ik == "list":
            px = chunks
        elif ik == "tuple":
            px = tuple(chunks)
        else:
            px = iter(chunks)
    elif form == "array":
        A = np.array(case["array"], dtype=np.int64)
        if cols[0][1] == "float":
            A = A.astype(np.float64) / G.SCALE
        ak = rep.get("array_kind")
        if ak == "fortran":
            A = np.asfortranarray(A)
        elif ak == "int32":
            A = A.astype(np.int32)
        elif ak == "memmap":
            fn = os.path.join(workdir or ".", "arr.npy")
            np.save(fn, A)
            A = np.load(fn, mmap_mode="r")
        elif ak == "h5py":
            import h5py
            fn = os.path.join(workdir or ".", "arr.h5")
            with h5py.File(fn, "w") as f:
                f.create_dataset("A", data=A)
            A = h5py.File(fn, "r")["A"]
        px = ArrayLoader(bins, A, case["chunksize"])
        kw["ordered"] = True
    else:
        raise AssertionError(form)
    return bins, px, kw


def _pre_iterate(px, how):
    """use the input object before handing it to the library: a re-iterable input must not remember it"""
    if how == "partial":
        next(iter(px), None)
    elif how == "full":
        list(px)
    elif how == "twice":
        list(px)
        list(px)


def impl_case(case, path):
    """one creation + read back, possibly with a process history in front of it (case["history"]):
       reuse     - the SAME input object (ArrayLoader, list/tuple of chunks, DataFrame, dict) was iterated by hand and/or
                   already fed to an earlier creation at another destination with other options;
       overwrite - another cooler was created at the SAME path and read completely through the API just before."""
    hist = case.get("history")
    if not hist:
        return _impl_one(case, path)
    workdir = os.path.dirname(path)
    if hist["kind"] == "overwrite":
        _impl_one(hist["prev"], path)
        return _impl_one(case, path, keep_file=True)      # default mode "w" replaces the file
    first = {k: v for k, v in case.items() if k != "history"}
    first.update(hist.get("first", {}))
    _, px, _ = build_input(first, workdir)
    _pre_iterate(px, hist.get("pre"))
    if hist["nth"] == 2:
        other = path + ".first.cool"
        _impl_one(first, other, px_override=px)
        out = _impl_one(case, path, px_override=px)
        if os.path.exists(other):
            os.remove(other)
        return out
    return _impl_one(case, path, px_override=px)


def _impl_one(case, path, px_override=None, keep_file=False):
    """create + read back; returns a dict of canonical observables"""
    import cooler
    import h5py
    rep = case.get("rep", {})
    workdir = os.path.dirname(path)
    for fn in ([] if keep_file else [path]) + [os.path.join(workdir, x) for x in os.listdir(workdir) if x.endswith(".multi.cool")]:
        if os.path.exists(fn):
            os.remove(fn)
    bins, px, kw = build_input(case, workdir, need_px=px_override is None)
    if px_override is not None:
        px = px_override
    grp = rep.get("uri")                                  # destination group, spelled as given ("g/h", "/g/h", ...)
    uri = path if not grp else path + "::" + grp
    gpath = "/" if not grp else "/" + grp.strip("/")
    if rep.get("api") == "unordered_direct":              # cooler.create.create_from_unordered called directly
        from cooler.create import create_from_unordered as _cfu
        kw.pop("ordered", None)
        st, val = G.guarded(lambda: _cfu(uri, bins, px, **kw))
    elif rep.get("api") == "create":                        # cooler.create.create directly (mode None -> append flag rule)
        from cooler.create import create as _create
        kw.pop("ordered", None)
        if rep.get("dtype_kw") and "dtypes" in kw:
            kw["dtype"] = kw.pop("dtypes")
        st, val = G.guarded(lambda: _create(uri, bins, px, **kw))
    elif rep.get("api") != "unordered_direct":
        st, val = G.guarded(lambda: cooler.create_cooler(uri, bins, px, **kw))
    if st != "ok":
        return {"result": G.err_kind_of_message(st, val)}
    cols = case["cols"]
    out = {"result": "ok"}

    def read():
        with h5py.File(path, "r") as f0:
            f = f0[gpath]
            g = f["pixels"]
            b1 = [int(x) for x in g["bin1_id"][:]]
            b2 = [int(x) for x in g["bin2_id"][:]]
            vs = [_scaled(g[c[0]][:], c[1]) for c in cols]
            out["raw_dtypes"] = [str(g[c[0]].dtype) for c in cols]
            out["raw"] = [[a, b_, [v[i] for v in vs]] for i, (a, b_) in enumerate(zip(b1, b2))] if all(v is not None for v in vs) else "inexact"
            at = dict(f.attrs)
            out["nnz"] = int(at["nnz"])
            s_ = at["sum"]
            out["sum"] = _scaled([s_], "float" if cols[0][0] == "count" and cols[0][1] == "float" else "int")
            out["sum"] = None if out["sum"] is None else out["sum"][0]
            out["storage-mode"] = str(at["storage-mode"])
            out["nbins"] = int(at["nbins"])
        clr = cooler.Cooler(path if not grp else path + "::" + gpath)
        df = clr.pixels()[:]
        out["pixel_columns"] = [str(c) for c in df.columns]
        vs = [_scaled(df[c[0]].values, c[1]) for c in cols]
        out["pixels"] = [[int(a), int(b_), [v[i] for v in vs]] for i, (a, b_) in enumerate(zip(df["bin1_id"].values, df["bin2_id"].values))]
        dense, sparse = [], []
        mkw = {"chunksize": rep["matrix_chunksize"]} if rep.get("matrix_chunksize") else {}
        for c in cols:
            sp = clr.matrix(balance=False, field=c[0], sparse=True, **mkw)[:, :]
            if case.get("sparse_only"):
                out.setdefault("dense_shape", list(sp.shape))
            else:
                m = clr.matrix(balance=False, field=c[0], **mkw)[:, :]
                dense.append(_scaled(m, c[1]))
                out.setdefault("dense_shape", list(m.shape))
            dv = _scaled(sp.data, c[1])
            sparse.append(sorted([int(r), int(cc), v] for r, cc, v in zip(sp.row, sp.col, dv)))
        out["dense"] = dense
        out["sparse"] = sparse
        if not case.get("sparse_only"):
            ap = clr.matrix(balance=False, field=cols[0][0], as_pixels=True, **mkw)[:, :]
            av = _scaled(ap[cols[0][0]].values, cols[0][1])
            out["as_pixels"] = [[int(a), int(b_), x] for a, b_, x in zip(ap["bin1_id"].values, ap["bin2_id"].values, av)]
        if rep.get("join") or rep.get("bins_extra") or rep.get("bins_index") or rep.get("chrom"):
            bt = clr.bins()[:]
            out["bins"] = [[str(c_), int(s_), int(e_)] for c_, s_, e_ in zip(bt["chrom"].astype(str), bt["start"], bt["end"])]
            if rep.get("bins_extra"):
                out["bins_extra"] = [[float(w) * 4, int(t_)] for w, t_ in zip(bt["weight"], bt["tag"])]
            jp = clr.pixels(join=True)[:]
            out["joined"] = [[str(a), int(b_), int(c_), str(d_), int(e_), int(f_)] for a, b_, c_, d_, e_, f_ in
                             zip(jp["chrom1"].astype(str), jp["start1"], jp["end1"], jp["chrom2"].astype(str), jp["start2"], jp["end2"])]
        inf = clr.info
        out["clr_storage_mode"] = str(clr.storage_mode)
        out["info_metadata"] = inf.get("metadata")
        out["info_assembly"] = inf.get("genome-assembly")
        out["info_nnz"] = int(inf["nnz"])
        return out

    st, val = G.guarded(read)
    if st != "ok":
        return {"result": "ok", "read_error": st + ": " + val[:200]}
    return out


# --------------------------------------------------------------------------- model side
MODEL_PREAMBLE = """
Definition agg_rows (ncols : nat) (rows : list (key * list Z)) : list (key * list Z) :=
  let cols := map (fun k => aggregate (col_px k rows)) (seq 0 ncols) in
  match cols with
  | c0 :: _ => map (fun p => (fst p, map (fun c => look c (fst p)) cols)) c0
  | [] => []
  end.
"""


def model_expr(case):
    cols = case["cols"]
    n = G.nbins_of(case["widths"])
    ncols = len(cols)
    d = f"((0, 0), {C.zl([0] * ncols)})"
    fits = f"(fun r : key * list Z => fits_lims {G.lims_lit(cols)} (snd r))"
    cnt = "(Some (fun r : key * list Z => nth 0 (snd r) 0))" if cols[0][0] == "count" else "None"
    o = case.get("opts", {})
    flags = " ".join(C.b(x) for x in (case["symm"], o.get("boundscheck", True), o.get("triucheck", True),
                                      o.get("dupcheck", True), o.get("ensure_sorted", False)))
    form = case["form"]
    if form in ("frame", "dict") and case.get("rep", {}).get("api") == "create":
        body = f"create {d} {fits} {cnt} {C.z(n)} {flags} [{G.rows_lit(case['rows'])}]"
    elif form == "unordered" and case.get("grp") == "unordered-grid":
        # unordered creation stores the canonical aggregate of all records (C06's theorem): per value column the
        # Pixels.aggregate of the stream, re-assembled into rows by [agg_rows] (defined in MODEL_PREAMBLE)
        body = f"create_cooler_frame {d} {fits} {cnt} {C.z(n)} {flags} (agg_rows {C.nat(ncols)} {G.rows_lit(case['rows'])})"
    elif form in ("frame", "dict", "unordered"):
        # unordered creation of a duplicate-free stream stores the sorted table (the merge itself is C06's subject)
        body = f"create_cooler_frame {d} {fits} {cnt} {C.z(n)} {flags} {G.rows_lit(case['rows'])}"
    elif form == "chunks":
        body = f"create {d} {fits} {cnt} {C.z(n)} {flags} {G.chunks_lit(G.split_rows(case['rows'], case['cuts']))}"
    else:
        A = C.lst([C.zl(r) for r in case["array"]])
        body = f"create {d} {fits} {cnt} {C.z(n)} {flags} (map rows_of_px (array_loader {A} {C.z(case['chunksize'])}))"
    return f"{'obs_create_sparse' if case.get('sparse_only') else 'obs_create'} {C.nat(ncols)} ({body})"


def parse_model(val):
    """-> {"result": "ok"/ErrX, raw, nnz, sum, pixels, dense, sparse}"""
    assert val[0] == "C" and val[1] in ("inl", "inr"), val
    if val[1] == "inl":
        return {"result": val[2][1]}
    rows, nnz, total, symm, rpx, dense, sparse = val[2]
    conv = lambda rs: [[r[0], r[1], list(r[2])] for r in rs]  # noqa: E731
    return {"result": "ok", "raw": conv(rows), "nnz": nnz, "sum": total, "symm": symm, "pixels": conv(rpx),
            "dense": [list(dn) for dn in dense], "sparse": [sorted([p[0], p[1], p[2]] for p in sp) for sp in sparse]}


# --------------------------------------------------------------------------- oracle
def is_valid_input(case):
    """the inputs the property quantifies over: in-range, (upper in symmetric mode), no duplicate key, values fit,
    sorted stream (frame/dict forms are sorted by create_cooler), default checks"""
    if case.get("kind") == "malformed" or case.get("expect") == "refused":
        return False
    return True


def expected_rows(case):
    """the records the input denotes, in (bin1, bin2) order - computed from the input only"""
    if case["form"] == "array":
        A = case["array"]
        n = len(A)
        return [[i, j, [A[i][j]]] for i in range(n) for j in range(n) if A[i][j] != 0 and i <= j]
    if case["form"] == "unordered":
        acc = {}
        for r in case["rows"]:
            a = acc.setdefault((r[0], r[1]), [0] * len(r[2]))
            for k, x in enumerate(r[2]):
                a[k] += x
        return [[i, j, v] for (i, j), v in sorted(acc.items())]
    return sorted(case["rows"], key=lambda r: (r[0], r[1]))


def oracle(case, out):
    """returns a list of (what, expected, got) property violations"""
    bad = []
    if out.get("result") != "ok":
        return [("creation of a valid input failed", "ok", out.get("result"))]
    if "read_error" in out:
        return [("reading back failed", "ok", out["read_error"])]
    n = G.nbins_of(case["widths"])
    exp = expected_rows(case)
    ncols = len(case["cols"])
    if out["pixels"] != exp:
        bad.append(("pixels()[:]", exp[:12], out["pixels"][:12]))
    if out["raw"] != exp:      # stored columns hold exactly the records (regression D21: length equals nnz)
        bad.append(("raw HDF5 pixel columns", exp[:12], out["raw"][:12]))
    if out["pixel_columns"][:2] != ["bin1_id", "bin2_id"] or sorted(out["pixel_columns"][2:]) != sorted(c[0] for c in case["cols"]):
        bad.append(("pixel table columns", [c[0] for c in case["cols"]], out["pixel_columns"]))
    if out["nnz"] != len(exp) or out["info_nnz"] != len(exp):
        bad.append(("nnz", len(exp), out["nnz"]))
    if case["cols"][0][0] == "count" and not case.get("skip_sum") and out["sum"] != sum(r[2][0] for r in exp):
        bad.append(("sum", sum(r[2][0] for r in exp), out["sum"]))
    if out["storage-mode"] != ("symmetric-upper" if case["symm"] else "square") or out.get("clr_storage_mode", out["storage-mode"]) != out["storage-mode"]:
        bad.append(("storage-mode", case["symm"], [out["storage-mode"], out.get("clr_storage_mode")]))
    if out.get("dense_shape") != [n, n]:
        bad.append(("matrix shape", [n, n], out.get("dense_shape")))
    for k in range(ncols):
        D = [[0] * n for _ in range(n)]
        trip = []
        for r in exp:
            D[r[0]][r[1]] += r[2][k]
            trip.append([r[0], r[1], r[2][k]])
            if case["symm"] and r[0] != r[1]:
                D[r[1]][r[0]] += r[2][k]
                trip.append([r[1], r[0], r[2][k]])
        flat = [D[i][j] for i in range(n) for j in range(n)]
        if not case.get("sparse_only") and out["dense"][k] != flat:
            bad.append((f"dense matrix of column {case['cols'][k][0]}", flat, out["dense"][k]))
        if out["sparse"][k] != sorted(trip):
            bad.append((f"sparse matrix of column {case['cols'][k][0]}", sorted(trip)[:12], out["sparse"][k][:12]))
    if "as_pixels" in out and out["as_pixels"] != [[r[0], r[1], r[2][0]] for r in exp]:
        bad.append(("matrix(as_pixels=True)", [[r[0], r[1], r[2][0]] for r in exp][:12], out["as_pixels"][:12]))
    if "bins" in out:
        names = G.names_for(len(case["widths"]))
        eb = [[names[c_], s_, e_] for blk in G.blocks_from_widths(case["widths"]) for (c_, s_, e_) in blk]
        if out["bins"] != eb:
            bad.append(("bins()[:]", eb[:8], out["bins"][:8]))
        if "bins_extra" in out and out["bins_extra"] != [[float(i + 2), 3 * i - 2] for i in range(len(eb))]:
            bad.append(("extra bin columns", "weight=i/4+0.5, tag=3i-2", out["bins_extra"][:8]))
        ej = [eb[r[0]] + eb[r[1]] for r in exp]
        if out["joined"] != ej:
            bad.append(("pixels(join=True)[:]", ej[:6], out["joined"][:6]))
    md = case.get("metadata")
    if out["info_metadata"] != ({} if md is None else md) or (md is not None and stdjson.dumps(out["info_metadata"], sort_keys=True) != stdjson.dumps(md, sort_keys=True)):
        bad.append(("metadata", md, out["info_metadata"]))
    asm = case.get("assembly")
    want = "unknown" if asm is None else asm
    got = out["info_assembly"]
    if type(got) is not str or got != want:
        bad.append(("assembly", want, repr(got)))
    return bad


def assembly_signature(case):
    """input predicate of known finding D13: the assembly string is itself a JSON document"""
    a = case.get("assembly")
    if a is None:
        return None
    try:
        stdjson.loads(a)
    except ValueError:
        return None
    return "assembly-json-literal"


# --------------------------------------------------------------------------- generators
def _vals(rng, ncols, cols, big=False):
    out = []
    for c in cols:
        if c[1] == "float":
            out.append(rng.choice([1, 4, 8, 12, 20, 1000, 3, -8, 2 ** 20 + 1]) if rng.random() < 0.5 else rng.randint(-64, 256))
        else:
            ii = np.iinfo(G.np_dtype(c[2]))
            hi = min(int(ii.max), 2 ** 40)     # int64 wrap-around of the sum is outside the model (DESIGN section 3)
            if big and rng.random() < 0.5:
                out.append(rng.choice([hi, hi - 1, max(int(ii.min), -hi), hi // 2 + 1]))
            else:
                out.append(rng.randint(0 if ii.min == 0 else -3, min(hi, 50)) if rng.random() < 0.8 else rng.randint(1, hi))
    return out


COL_VARIANTS = [
    DEFAULT_COLS,
    DEFAULT_COLS,
    [["count", "int", "int64", "int64"]],
    [["count", "int", "int32", "int32"]],
    [["count", "float", "float64", "float64"]],
    [["count", "int", "int32", "int64"], ["foo", "float", "default", "float64"], ["bar", "int", "int64", "int64"]],
    [["count", "int", "int32", "int64"], ["w", "int", "int16", "int64"], ["f", "float", "float32", "float64"]],
    [["count", "int", "uint16", "int64"], ["z", "int", "int8", "int32"]],
]


def random_doc(rng, depth=0):
    r = rng.random()
    if depth >= 3 or r < 0.5:
        return rng.choice([0, 1, -1, 2 ** 31, 2 ** 70, -2 ** 63, 0.5, -1.25, 1e100, 3.141592653589793, True, False, None, "",
                           "abc", "123", "true", "a b", "q\"uote", "back\\slash", "tab\tnl\n", "é中", "[1]", "{}", "null"])
    if r < 0.75:
        return [random_doc(rng, depth + 1) for _ in range(rng.randint(0, 3))]
    return {rng.choice(["k", "a b", "", "1", "ü", "format", "metadata", "x.y"]) + str(i) * rng.randint(0, 1): random_doc(rng, depth + 1)
            for i in range(rng.randint(0, 3))}


def random_metadata(rng):
    if rng.random() < 0.1:
        return rng.choice([{}, [], [1, {"a": None}], {"nested": {"deep": {"deeper": [1, 2, {"x": []}]}}}])
    return {f"key{i}" if rng.random() < 0.6 else rng.choice(["a b", "", "ü", "format", "nnz"]): random_doc(rng, 1)
            for i in range(rng.randint(1, 4))}


def random_matrix_rows(rng, n, symm, cols, fam, big):
    cells = [(i, j) for i in range(n) for j in range(n) if (i <= j or not symm)]
    if fam == "empty":
        chosen = []
    elif fam == "diag":
        chosen = [(i, i) for i in range(n) if rng.random() < 0.8]
    elif fam == "dense":
        chosen = cells if rng.random() < 0.5 else [c for c in cells if rng.random() < 0.85]
    else:
        chosen = [c for c in cells if rng.random() < 0.3]
    return [[i, j, _vals(rng, len(cols), cols, big)] for (i, j) in chosen]


def random_cuts(rng, L, maxk=4):
    k = rng.randint(1, maxk)
    marks = sorted(rng.randint(0, L) for _ in range(k - 1))
    edges = [0] + marks + [L]
    return [b_ - a for a, b_ in zip(edges[:-1], edges[1:])]


def gen_cases(ctx):
    rng = ctx.rng
    thorough = ctx.tier == "thorough"
    cases = []

    def table(n, k=None):
        fam = G.BIN_TABLES[n]
        return fam[(k if k is not None else rng.randrange(len(fam))) % len(fam)]

    # A. exhaustive occupancy patterns, distinct values, rotating input forms
    rot = 0
    for symm in (True, False):
        for n in (1, 2, 3):
            cells = [(i, j) for i in range(n) for j in range(n) if (i <= j or not symm)]
            masks = list(range(1 << len(cells)))
            if not symm and n == 3 and not thorough:
                masks = sorted(rng.sample(masks, 40))
            for mask in masks:
                rows = [[i, j, [1 + i * n + j]] for b_, (i, j) in enumerate(cells) if mask >> b_ & 1]
                case = {"grp": "pattern", "widths": table(n, mask), "symm": symm, "cols": DEFAULT_COLS, "rows": rows}
                form = ["chunks", "frame", "dict", "chunks", "array"][rot % 5]
                rot += 1
                if form == "array" and not symm and any(r[0] > r[1] for r in rows):
                    form = "frame"      # ArrayLoader keeps the upper triangle only
                if form == "chunks":
                    case["cuts"] = random_cuts(rng, len(rows), 3)
                    case["chunkforms"] = [rng.choice(["dict", "df"]) for _ in case["cuts"]]
                elif form in ("frame", "dict"):
                    rows = list(rows)
                    rng.shuffle(rows)
                    case["rows"] = rows
                else:
                    A = [[0] * n for _ in range(n)]
                    for i, j, v in rows:
                        A[i][j] = v[0]
                        if i != j and rng.random() < 0.7:
                            A[j][i] = v[0] if rng.random() < 0.5 else v[0] + 100   # lower triangle is ignored
                    case["array"] = A
                    case["chunksize"] = 1 + rot % (n + 1)
                    case.pop("rows")
                case["form"] = form
                cases.append(case)

    # B. every weak composition of a sorted stream into 0..4 chunks
    base = {0: [], 3: [[0, 0, [5]], [0, 2, [7]], [1, 1, [2 ** 31 - 1]]],
            5: [[0, 1, [1]], [0, 2, [2]], [1, 1, [3]], [2, 2, [4]], [2, 3, [5]]]}
    for L, rows in base.items():
        comps = [[]] if L == 0 else []
        for k in range(1, 5):
            comps += G.weak_compositions(L, k)
        if L == 5 and not thorough:
            comps = [comps[i] for i in sorted(rng.sample(range(len(comps)), 24))]
        for t, cuts in enumerate(comps):
            cases.append({"grp": "composition", "widths": [[3, 3, 1], [2]] if L else [[5, 2]], "symm": bool((t + L) % 3), "cols": DEFAULT_COLS,
                          "rows": rows, "form": "chunks", "cuts": cuts,
                          "chunkforms": [["dict", "df"][(t + i) % 2] for i in range(len(cuts))]})

    # C. seeded random matrices x forms x columns x h5opts x metadata
    for t in range(900 if thorough else 110):
        n = rng.randint(1, 7)
        symm = rng.random() < 0.6
        cols = COL_VARIANTS[t % len(COL_VARIANTS)]
        fam = rng.choice(["sparse", "sparse", "dense", "diag", "empty"]) if t % 11 else "empty"
        rows = random_matrix_rows(rng, n, symm, cols, fam, big=rng.random() < 0.4)
        case = {"grp": "random", "widths": table(n), "symm": symm, "cols": cols, "rows": rows,
                "h5opts": list(H5OPTS)[t % len(H5OPTS)] if t % 2 else "default"}
        if rng.random() < 0.6:
            case["metadata"] = random_metadata(rng)
        if rng.random() < 0.5:
            case["assembly"] = rng.choice(["hg19", "mm10", "ce-11", "dm6 (BDGP)", "é-1", "GRCh38.p14", "T2T", "a:b::c", "x y"])
        form = rng.choice(["frame", "dict", "chunks", "chunks"])
        if form == "chunks":
            case["cuts"] = random_cuts(rng, len(rows))
            case["chunkforms"] = [rng.choice(["dict", "df"]) for _ in case["cuts"]]
            if rng.random() < 0.2:
                case["id_dtype"] = "int32"
        else:
            rows = list(rows)
            rng.shuffle(rows)
            case["rows"] = rows
        case["form"] = form
        cases.append(case)

    # C3. dtype of the INPUT bin-id columns x input form, on tables large enough that bin1 * nbins (and bin1 * nbins + bin2)
    #     leaves the range of the narrow types: 12-20 bins (int8 / uint8), 300 bins (int16 / uint16); pixels reach the highest ids
    t = 0
    for n in ((12, 13, 16, 20, 300) if thorough else (12, 20, 300)):
        widths = G.BIG_TABLES[n]
        for dt in G.ID_DTYPES:
            if not G.id_dtype_holds(dt, n):
                continue
            for form in ("frame-sorted", "frame", "dict", "chunks"):
                for symm in ((True, False) if (thorough or n == 300) else (bool(t % 2),)):
                    t += 1
                    keys = {(n - 1, n - 1), (0, n - 1), (n - 2, n - 1), (n - 2, n - 2), (0, 0), (1, n // 2), (n // 2, n // 2 + 1)}
                    for _ in range(30 if n == 300 else 14):
                        hi_ = rng.random() < 0.6
                        i = rng.randint(n - 1 - n // 3, n - 1) if hi_ else rng.randint(0, n - 1)
                        j = rng.randint(0, n - 1)
                        keys.add((i, j))
                    if not symm:
                        keys |= {(n - 1, 0), (n - 1, n - 2), (n // 2, 0)}
                    else:
                        keys = {(min(i, j), max(i, j)) for (i, j) in keys}
                    rows = [[i, j, [1 + (i * 7 + j * 3) % 97]] for (i, j) in sorted(keys)]
                    case = {"grp": "id-dtype", "widths": widths, "symm": symm, "cols": DEFAULT_COLS, "rows": rows, "id_dtype": dt}
                    if n > 40:
                        case["sparse_only"] = True
                    if form == "chunks":
                        case["form"] = "chunks"
                        case["cuts"] = random_cuts(rng, len(rows))
                        case["chunkforms"] = [["dict", "df"][(t + q) % 2] for q in range(len(case["cuts"]))]
                    else:
                        case["form"] = "dict" if form == "dict" else "frame"
                        if form != "frame-sorted":
                            rows = list(rows)
                            rng.shuffle(rows)
                            case["rows"] = rows
                    cases.append(case)

    # C4. one case per public parameter / input representation that the groups above do not vary (audit table in RULE_AUDIT)
    F32 = [["count", "float", "float64", "float32"]]
    C3 = [["count", "int", "int32", "int64"], ["foo", "float", "default", "float64"], ["bar", "int", "int64", "int64"]]
    variants = [
        ("frame", {"chrom": "string"}, {}), ("dict", {"bins_extra": True}, {}), ("chunks", {"chrom": "string", "bins_extra": True, "bins_index": True}, {}),
        ("frame", {"px_index": True}, {}), ("chunks", {"px_index": True}, {"chunkforms": "df"}),
        ("frame", {"colorder": "reversed"}, {}), ("dict", {"colorder": "reversed"}, {}), ("chunks", {"colorder": "reversed"}, {"cols": C3}),
        ("frame", {"junk": True}, {}), ("dict", {"junk": True}, {}), ("chunks", {"junk": True}, {"chunkforms": "df"}),
        ("dict", {"dictvals": "series"}, {}), ("dict", {"dictvals": "list"}, {}),
        ("chunks", {"iterkind": "generator"}, {}), ("chunks", {"iterkind": "list"}, {}), ("chunks", {"iterkind": "tuple"}, {"chunkforms": "df"}),
        ("frame", {"columns_arg": "explicit"}, {}), ("frame", {"columns_arg": "with_ids"}, {}), ("chunks", {"columns_arg": "with_ids"}, {"cols": C3}),
        ("frame", {"id_out_dtypes": True}, {}), ("chunks", {"id_out_dtypes": True, "dtypes_as": "series"}, {"cols": [["count", "int", "int64", "int64"]]}),
        ("chunks", {"lock": True}, {}), ("frame", {"lock": True}, {}),
        ("frame", {"uri": "g/h"}, {}), ("chunks", {"uri": "/g/h"}, {}), ("dict", {"uri": "/g"}, {}), ("chunks", {"uri": "g", "mode": "a"}, {}),
        ("frame", {"api": "create"}, {}), ("chunks", {"api": "create", "dtype_kw": True}, {"cols": [["count", "float", "float64", "float64"]]}),
        ("dict", {"api": "create", "uri": "x/y"}, {}),
        ("unordered", {"unordered": {"order": "identity"}}, {}), ("unordered", {"unordered": {"order": "reversed", "mergebuf": 2}}, {}),
        ("unordered", {"unordered": {"order": "shuffled", "max_merge": 1}}, {"nchunks": 4}), ("unordered", {"unordered": {"order": "reversed", "temp_dir": True}}, {}),
        ("unordered", {"unordered": {"order": "shuffled", "delete_temp": False, "mergebuf": 3}}, {"cols": C3}),
        ("chunks", {}, {"opts": {"boundscheck": False}}), ("frame", {}, {"opts": {"boundscheck": False, "triucheck": False, "dupcheck": False}}),
        ("chunks", {}, {"opts": {"triucheck": False, "dupcheck": False}}),
        ("chunks", {"shuffle_within": True}, {"opts": {"ensure_sorted": True}}), ("frame", {}, {"opts": {"ensure_sorted": True}}),
        ("array", {"array_kind": "h5py"}, {}), ("array", {"array_kind": "memmap"}, {}), ("array", {"array_kind": "fortran"}, {}), ("array", {"array_kind": "int32"}, {}),
        ("frame", {}, {"cols": [["foo", "int", "int32", "int64"]]}), ("chunks", {}, {"cols": [["foo", "float", "default", "float64"], ["bar", "int", "int16", "int64"]]}),
        ("frame", {}, {"cols": [["count", "int", "int32", "int8"]]}), ("chunks", {}, {"cols": [["count", "int", "int32", "uint16"]]}),
        ("dict", {}, {"cols": F32}), ("frame", {}, {"cols": [["count", "int", "int32", "bool"]], "bool": True}),
        ("frame", {"matrix_chunksize": 1}, {}), ("chunks", {"matrix_chunksize": 3, "join": True}, {}),
    ]
    n = 5
    for vi, (form, rep, extra) in enumerate(variants):
        for symm in ((True, False) if thorough else (bool(vi % 2),)):
            if form == "array":
                symm = symm  # ArrayLoader yields the upper triangle in both modes
            cols = extra.get("cols", DEFAULT_COLS)
            keys = [(0, 0), (0, 3), (1, 1), (1, 4), (2, 3), (3, 3), (4, 4)] + ([] if (symm or form == "array") else [(3, 0), (4, 1), (2, 0)])
            rows = []
            for (i, j) in sorted(keys):
                vals = []
                for c in cols:
                    x = 1 + (i * 7 + j * 3 + len(vals)) % 97
                    vals.append(x % 2 if extra.get("bool") else x)
                rows.append([i, j, vals])
            case = {"grp": "parameter", "widths": [[4, 4, 1], [4, 2]], "symm": symm, "cols": cols, "rows": rows, "form": form, "rep": dict(rep)}
            if "opts" in extra:
                case["opts"] = dict(extra["opts"])
            if form in ("chunks", "unordered"):
                k = extra.get("nchunks", 3)
                marks = sorted(rng.randint(0, len(rows)) for _ in range(k - 1))
                edges = [0] + marks + [len(rows)]
                case["cuts"] = [b_ - a for a, b_ in zip(edges[:-1], edges[1:])]
                cf = extra.get("chunkforms")
                case["chunkforms"] = [cf or ["dict", "df"][(vi + q) % 2] for q in range(k)]
                if rep.get("shuffle_within"):
                    parts = G.split_rows(rows, case["cuts"])
                    for part in parts:
                        rng.shuffle(part)
                    case["rows"] = [r for part in parts for r in part]
                if form == "unordered":
                    u = dict(rep["unordered"])
                    order = list(range(k))
                    if u["order"] == "reversed":
                        order.reverse()
                    elif u["order"] == "shuffled":
                        rng.shuffle(order)
                    u["order"] = order
                    case["rep"]["unordered"] = u
            elif form in ("frame", "dict"):
                if rep.get("api") != "create":           # create() itself takes the table as is; sorting is create_cooler's job
                    rows = list(rows)
                    rng.shuffle(rows)
                    case["rows"] = rows
            else:
                A = [[0] * n for _ in range(n)]
                for i, j, vv in rows:
                    A[i][j] = vv[0]
                    if i != j:
                        A[j][i] = vv[0] + (0 if (i + j) % 2 else 50)
                case["array"] = A
                case["chunksize"] = 1 + vi % 3
                case.pop("rows")
            cases.append(case)

    # C5. unordered creation (ordered=False, the default for an iterable of chunks): number of chunks 1..17 x max_merge x mergebuf,
    #     chunk layouts {sorted disjoint, interleaved with duplicates across chunks, empty chunks in the middle / at the end},
    #     x ensure_sorted (chunks internally shuffled) x storage mode x extra columns.  The oracle is the matrix the records denote
    #     (records with the same key in different chunks add up).
    MAXM = [0, 1, 2, 3, 4, 10, 200]
    MBUF = [1, 2, 7, 20_000_000]
    C3u = [["count", "int", "int32", "int64"], ["foo", "float", "default", "float64"], ["bar", "int", "int64", "int64"]]
    g = 0
    nb = 7
    grid = [(nc, mm, mb) for nc in range(1, 18) for mm in MAXM for mb in MBUF]
    if not thorough:
        # every max_merge below the number of chunks (two-pass merge), and one representative of the single-pass class
        # {0, 200, the values >= number of chunks}, rotating; mergebuf rotating
        grid = []
        for nc in range(1, 18):
            single = [0, 200] + [m for m in (1, 2, 3, 4, 10) if m >= nc]
            mms = [m for m in (1, 2, 3, 4, 10) if m < nc] + [single[nc % len(single)]]
            grid += [(nc, mm, MBUF[(nc + 3 * q) % 4]) for q, mm in enumerate(mms)]
    else:
        grid.append((230, None, 7))                       # more chunks than the default max_merge = 200
    for (nc, mm, mb) in grid:
        g += 1
        symm = (g % 3) != 0
        cols = C3u if g % 4 == 0 else DEFAULT_COLS
        layout = ["disjoint", "overlap", "empties", "overlap-empties"][(g + nc) % 4]
        es = (g % 5) == 0
        cells = [(i, j) for i in range(nb) for j in range(nb) if (i <= j or not symm)]
        rng.shuffle(cells)
        nrec = min(len(cells), max(nc, rng.randint(nc, nc + 12)))
        recs = [[i, j, [1 + rng.randint(0, 60) * (1 if c[1] == "int" else 2) for c in cols]] for (i, j) in sorted(cells[:nrec])]
        nonempty = nc if layout in ("disjoint", "overlap") else max(1, nc - 1 - (nc > 4))
        chunks = [[] for _ in range(nonempty)]
        if layout.startswith("overlap"):
            for r in recs:                                # interleaved key ranges
                chunks[rng.randrange(nonempty)].append(r)
            for r in rng.sample(recs, min(len(recs), 1 + nrec // 4)):    # the same key again in another chunk
                others = [q for q in range(nonempty) if all(x[:2] != r[:2] for x in chunks[q])]
                if others:
                    chunks[rng.choice(others)].append([r[0], r[1], [v + 3 for v in r[2]]])
            chunks = [sorted(ch, key=lambda r: (r[0], r[1])) for ch in chunks]
        else:
            marks = sorted(rng.randint(0, len(recs)) for _ in range(nonempty - 1))
            edges = [0] + marks + [len(recs)]
            chunks = [recs[a:b_] for a, b_ in zip(edges[:-1], edges[1:])]
        while len(chunks) < nc:                           # empty chunks in the middle and at the end
            chunks.insert(len(chunks) if len(chunks) % 2 else len(chunks) // 2, [])
        order = list(range(nc))
        if g % 2:
            rng.shuffle(order)
        if es:
            for ch in chunks:
                rng.shuffle(ch)
        case = {"grp": "unordered-grid", "widths": G.BIN_TABLES[nb][g % len(G.BIN_TABLES[nb])], "symm": symm, "cols": cols, "form": "unordered",
                "rows": [r for ch in chunks for r in ch], "cuts": [len(ch) for ch in chunks],
                "chunkforms": [["dict", "df"][(g + q) % 2] for q in range(nc)], "layout": layout,
                "rep": {"unordered": {"order": order, "mergebuf": mb, "omit_ordered": bool(g % 2)}}}
        if mm is not None:
            case["rep"]["unordered"]["max_merge"] = mm
        if es:
            case["opts"] = {"ensure_sorted": True}
        if g % 7 == 0:
            case["rep"]["iterkind"] = "generator"
        cases.append(case)

    # C6. process history.  (a) re-iterable input objects (ArrayLoader, list / tuple of chunks, DataFrame, dict) iterated by hand
    #     (partially, fully, twice) before the creation, and fed to TWO consecutive creations at different destinations with
    #     different options; (b) a cooler created and read completely at path P, then P overwritten (mode "w") by a different
    #     matrix with the same / fewer / more bins, other storage mode, other columns.  Every result is compared with the matrix given.
    def hrows(nbins, symm, cols, salt):
        cells = [(i, j) for i in range(nbins) for j in range(nbins) if (i <= j or not symm) and (i * 5 + j * 3 + salt) % 3 != 0]
        return [[i, j, [1 + (i * 7 + j * 3 + q + salt) % 89 for q in range(len(cols))]] for (i, j) in cells]

    def hcase(form, nbins, symm, cols, salt, **kw_):
        rows = hrows(nbins, symm if form != "array" else True, cols, salt)
        c = {"grp": "history", "widths": G.BIN_TABLES[nbins][salt % len(G.BIN_TABLES[nbins])], "symm": symm, "cols": cols, "form": form, "rep": {}}
        if form == "array":
            A = [[0] * nbins for _ in range(nbins)]
            for i, j, vv in rows:
                A[i][j] = vv[0]
                if i != j and (i + j) % 2:
                    A[j][i] = vv[0] + 40
            c["array"] = A
            c["chunksize"] = 1 + salt % 3
        else:
            c["rows"] = rows
            if form == "chunks":
                k = 3
                marks = sorted(rng.randint(0, len(rows)) for _ in range(k - 1))
                edges = [0] + marks + [len(rows)]
                c["cuts"] = [b_ - a for a, b_ in zip(edges[:-1], edges[1:])]
                c["chunkforms"] = [["dict", "df"][(salt + q) % 2] for q in range(k)]
        c.update(kw_)
        return c

    salt = 0
    seconds = [{"symm": False, "h5opts": "lzf"}, {"h5opts": "nocomp", "rep_uri": "/g"}, {"symm": False}, {"h5opts": "gzip1"}]
    for form, iterkind, pres in (("array", None, ("none", "partial", "full", "twice")), ("array", "h5py", ("none", "full")),
                                 ("chunks", "list", ("none", "partial", "full")), ("chunks", "tuple", ("none", "full")),
                                 ("frame", None, ("none",)), ("dict", None, ("none",))):
        for pre in pres:
            for nth in (1, 2):
                if nth == 1 and pre == "none":
                    continue                              # that is every ordinary case
                salt += 1
                base = hcase(form, 5, True, DEFAULT_COLS, salt)
                if form == "array" and iterkind:
                    base["rep"]["array_kind"] = iterkind
                elif iterkind:
                    base["rep"]["iterkind"] = iterkind
                if nth == 1:
                    base["history"] = {"kind": "reuse", "pre": pre, "nth": 1}
                    cases.append(base)
                    continue
                sec = dict(seconds[salt % len(seconds)])
                case = dict(base)
                case["rep"] = dict(base["rep"])
                firstov = {}
                for k_, v_ in sec.items():
                    if k_ == "rep_uri":
                        firstov["rep"] = dict(base["rep"])
                        case["rep"]["uri"] = v_
                    else:
                        firstov[k_] = base.get(k_, "default" if k_ == "h5opts" else None)
                        case[k_] = v_
                case["history"] = {"kind": "reuse", "pre": pre, "nth": 2, "first": firstov}
                cases.append(case)
    C3h = [["count", "int", "int32", "int64"], ["foo", "float", "default", "float64"], ["bar", "int", "int64", "int64"]]
    for prev_spec, cur_spec in (
            (("frame", 5, True, DEFAULT_COLS), ("frame", 5, True, DEFAULT_COLS)),      # same bins, different matrix
            (("chunks", 5, True, DEFAULT_COLS), ("frame", 3, True, DEFAULT_COLS)),     # fewer bins
            (("frame", 3, True, DEFAULT_COLS), ("chunks", 7, False, DEFAULT_COLS)),    # more bins, other storage mode
            (("array", 6, True, DEFAULT_COLS), ("array", 6, True, DEFAULT_COLS)),
            (("dict", 5, False, DEFAULT_COLS), ("dict", 5, True, C3h)),                # other columns
            (("chunks", 7, True, C3h), ("chunks", 4, False, DEFAULT_COLS)),
            (("frame", 4, True, DEFAULT_COLS), ("array", 4, False, DEFAULT_COLS)),
            (("frame", 6, True, DEFAULT_COLS), ("frame", 6, True, DEFAULT_COLS))):
        salt += 1
        prev = hcase(*prev_spec, salt)
        cur = hcase(*cur_spec, salt + 17)
        if prev_spec == cur_spec and salt % 2:
            cur["rows" if "rows" in cur else "array"] = cur["rows"][:len(cur["rows"]) // 2] if "rows" in cur else [[0] * len(r) for r in cur["array"]]
        cur["history"] = {"kind": "overwrite", "prev": prev}
        cases.append(cur)

    # C7. numeric dtype edges of value columns: every (input dtype, stored dtype) pair over the 8 integer types, plus float64
    #     inputs holding integral in-range values; values at the edges of BOTH types (min, max, max+1 / min-1 of the stored type,
    #     -1, 0, 1, min / max of the input type).  The verdict is decided from the values and the stored dtype only: all values
    #     within the stored range -> exact round trip; one value outside -> refused with a ValueError, never stored changed.
    #     (non-integral or out-of-range FLOAT input into an integer column is known finding D32's silent cast: left out)
    INTS = ["int8", "int16", "int32", "int64", "uint8", "uint16", "uint32", "uint64"]
    FORMS = ["frame", "dict", "chunks-df", "chunks-dict", "unordered"]
    cells5 = [(i, j) for i in range(5) for j in range(i, 5)]
    e = 0
    for ind in INTS + ["float64"]:
        for outd in INTS:
            oi = np.iinfo(G.np_dtype(outd))
            olo, ohi = int(oi.min), int(oi.max)
            if ind == "float64":
                ilo, ihi = -2 ** 40, 2 ** 40              # integral floats far inside the exact range (sums stay exact)
            else:
                ii = np.iinfo(G.np_dtype(ind))
                ilo, ihi = int(ii.min), int(ii.max)
            cand = sorted({0, 1, -1, olo, ohi, olo - 1, ohi + 1, ilo, ihi, olo + 1, ohi - 1})
            cand = [v for v in cand if ilo <= v <= ihi]
            fit = [v for v in cand if olo <= v <= ohi]
            unfit = [] if ind == "float64" else [v for v in cand if not (olo <= v <= ohi)]
            for target in ("count", "extra"):
                variants = [("fit", fit, None)] + [("unfit", fit, v) for v in (unfit if thorough else ([unfit[0], unfit[-1]][(e // 2) % 2:][:1] if unfit else []))]
                for verdict, base_vals, bad_v in variants:
                    for form in (FORMS if thorough else [FORMS[e % len(FORMS)]]):
                        e += 1
                        vals = list(base_vals)
                        if bad_v is not None:
                            vals.insert((e * 3) % (len(vals) + 1), bad_v)
                        if target == "count":
                            cols = [["count", "int", outd, ind]]
                            rows = [[i, j, [v]] for (i, j), v in zip(cells5, vals)]
                        else:
                            cols = [["count", "int", "int32", "int64"], ["x", "int", outd, ind]]
                            rows = [[i, j, [q + 1, v]] for q, ((i, j), v) in enumerate(zip(cells5, vals))]
                        case = {"grp": "dtype-edge", "widths": [[4, 4, 1], [4, 2]], "symm": bool(e % 2), "cols": cols, "rows": rows}
                        if abs(sum(r[2][0] for r in rows)) >= 2 ** 63 or (target == "count" and max(abs(v) for v in vals) >= 2 ** 63):
                            case["skip_sum"] = True               # wrap-around of the int64 running sum is outside the model
                        if bad_v is not None:
                            case["expect"] = "refused"
                            case["offending"] = bad_v
                        if form in ("frame", "dict"):
                            case["form"] = form
                            rr = list(rows)
                            rng.shuffle(rr)
                            case["rows"] = rr
                        else:
                            k = 3
                            marks = sorted(rng.randint(0, len(rows)) for _ in range(k - 1))
                            edges = [0] + marks + [len(rows)]
                            case["cuts"] = [b_ - a for a, b_ in zip(edges[:-1], edges[1:])]
                            case["chunkforms"] = [("df" if form == "chunks-df" else "dict") if form != "unordered" else ["dict", "df"][(e + q) % 2] for q in range(k)]
                            if form == "unordered":
                                case["form"] = "unordered"
                                case["rep"] = {"unordered": {"order": [2, 0, 1], "mergebuf": [2, 20_000_000][e % 2]}}
                            else:
                                case["form"] = "chunks"
                        cases.append(case)

    # D. ArrayLoader, every chunksize 1..n+1
    for n in (range(1, 8) if thorough else (1, 2, 3, 4, 6)):
        for rep in range(3 if thorough else 1):
            kind = "float" if (n + rep) % 3 == 0 else "int"
            A = [[0] * n for _ in range(n)]
            for i in range(n):
                for j in range(n):
                    if rng.random() < (0.5 if n > 2 else 0.8):
                        A[i][j] = rng.choice([1, 2, 7, 2 ** 31 - 1]) if kind == "int" else rng.choice([4, 8, 1, -16, 100])
            if n >= 3:
                A[1] = [0] * n                      # an empty row
                A[n - 1][n - 1] = 9                 # last diagonal cell
            for c in range(1, n + 2):
                cases.append({"grp": "arrayloader", "widths": table(n), "symm": rep % 2 == 0, "form": "array", "array": A, "chunksize": c,
                              "cols": [["count", "float", "float64", "float64"]] if kind == "float" else DEFAULT_COLS})

    # E. malformed stream: model-vs-code only
    t3 = [[5, 5, 2]]
    mal = [
        {"rows": [[0, 1, [1]], [0, 0, [1]]], "cuts": [2]},                                     # unsorted inside a chunk: accepted as is
        {"rows": [[0, 1, [1]], [0, 0, [1]]], "cuts": [2], "opts": {"ensure_sorted": True}},    # sorted by the validator
        {"rows": [[1, 1, [1]], [0, 0, [2]]], "cuts": [1, 1]},                                  # unsorted across chunks
        {"rows": [[0, 0, [1]], [0, 0, [2]]], "cuts": [1, 1]},                                  # duplicate across chunks
        {"rows": [[0, 0, [1]], [0, 0, [2]]], "cuts": [2]},                                     # duplicate inside a chunk
        {"rows": [[0, 0, [1]], [0, 0, [2]]], "cuts": [2], "opts": {"dupcheck": False}},
        {"rows": [[0, 0, [1]], [1, 2, [3]], [0, 0, [2]]], "cuts": [3], "opts": {"dupcheck": False, "ensure_sorted": True}},  # stable sort
        {"rows": [[1, 0, [1]]], "cuts": [1]},
        {"rows": [[1, 0, [1]]], "cuts": [1], "symm": False},
        {"rows": [[1, 0, [1]]], "cuts": [1], "opts": {"triucheck": False}},
        {"rows": [[0, 3, [1]]], "cuts": [1]},
        {"rows": [[0, 3, [1]]], "cuts": [1], "opts": {"boundscheck": False}, "skip_read": True},
        {"rows": [[-1, 0, [1]], [0, 5, [1]]], "cuts": [2]},
        {"rows": [[0, 3, [1]], [1, 0, [1]], [1, 0, [1]]], "cuts": [3]},
        {"rows": [[0, 0, [2 ** 31]]], "cuts": [1]},
        {"rows": [[0, 0, [1]], [0, 1, [-2 ** 31 - 1]]], "cuts": [1, 1]},
        {"rows": [[0, 0, [2 ** 31]]], "cuts": [1], "cols": [["count", "int", "int64", "int64"]]},
        {"rows": [[0, 0, [1]], [0, 1, [1]], [0, 2, [1]], [1, 1, [1]], [1, 2, [1]], [2, 2, [1]], [2, 2, [5]]], "cuts": [6, 1]},  # > max_size
        {"rows": [[0, 0, [1]], [0, 0, [1]]], "cuts": [1, 1], "widths": [[4]]},
        {"rows": [[0, 0, [1]], [0, 0, [2 ** 31]]], "cuts": [1, 1], "widths": [[4]]},               # max_size fires before the range check
        {"rows": [[0, 1, [1]], [0, 0, [2]], [2, 2, [3]], [1, 2, [4]]], "form": "frame", "opts": {"ensure_sorted": True}},
        {"rows": [[1, 1, [1]], [0, 2, [2]], [1, 1, [3]], [0, 2, [4]], [0, 0, [5]]], "form": "dict", "opts": {"dupcheck": False}},   # stable sort of a frame
        {"rows": [[1, 1, [1]], [1, 1, [3]]], "form": "frame"},
    ]
    for m in mal:
        case = {"grp": "malformed", "kind": "malformed", "widths": t3, "symm": True, "cols": DEFAULT_COLS, "form": "chunks"}
        case.update(m)
        cases.append(case)
    for _ in range(150 if thorough else 25):
        n = rng.randint(1, 4)
        rows = [[rng.randint(-1, n), rng.randint(-1, n), [rng.choice([1, 2, 2 ** 31 - 1, 2 ** 31])]] for _ in range(rng.randint(1, 6))]
        case = {"grp": "malformed", "kind": "malformed", "widths": table(n), "symm": rng.random() < 0.5, "cols": DEFAULT_COLS, "rows": rows,
                "form": rng.choice(["chunks", "chunks", "frame"]),
                "opts": {k: rng.random() < 0.5 for k in ("ensure_sorted", "dupcheck", "triucheck") if rng.random() < 0.4}}
        if case["form"] == "chunks":
            case["cuts"] = random_cuts(rng, len(rows))
        cases.append(case)

    # C2. fixed corpus: edge-case metadata documents; regression inputs of repaired defect D21 (empty streams)
    for t, md in enumerate([{}, [], [1, {"a": None}], 0, "", False, "abc", {"": ""}, {"a": {"b": {"c": [[], {}, [{}]]}}}, 1.5, [None],
                            {"format": "HDF5::Cooler", "nnz": -1, "metadata": "{}"}, {"big": 2 ** 70, "neg": -2 ** 63, "f": 1e-300}]):
        cases.append({"grp": "metadata", "widths": [[4, 4, 1]], "symm": bool(t % 2), "cols": DEFAULT_COLS, "rows": [[0, 0, [2]], [1, 2, [3]]],
                      "form": ["dict", "frame", "chunks"][t % 3], "cuts": [1, 1], "metadata": md})
    for cuts, forms in (([], []), ([0], ["df"]), ([0], ["dict"]), ([0, 0], ["df", "dict"])):
        cases.append({"grp": "regression-D21", "widths": [[5, 5, 2]], "symm": True, "cols": DEFAULT_COLS, "rows": [], "form": "chunks",
                      "cuts": cuts, "chunkforms": forms})

    # G'. scalar type of the boolean flags at the API boundary: a third of the cases pass numpy booleans, a third 0/1 ints
    for i, c in enumerate(cases):
        if c.get("history") or c["grp"] in ("malformed",):
            continue
        how = [None, "numpy", "int"][i % 3]
        if how:
            c["rep"] = dict(c.get("rep", {}), flag_type=how)
        if c["grp"] == "unordered-grid" and i % 4 == 0:
            c["rep"] = dict(c.get("rep", {}), api="unordered_direct")
            c["rep"]["unordered"] = dict(c["rep"]["unordered"], omit_ordered=True)

    # F. assembly names (known finding D13 is exercised on every run by "123", "true", "null")
    for w in ASSEMBLY_WORDS + ["", " 12 ", "[1]", "{}", "\"q\"", "1.5", "hg 19", " hg19", "hg19 ", "hg19\n", "\tmm10", "HG19", "nul", "tru e"]:
        cases.append({"grp": "assembly", "widths": [[5, 3]], "symm": True, "cols": DEFAULT_COLS, "rows": [[0, 1, [3]]], "form": "dict", "assembly": w})
    return cases


def nontrivial(case):
    rows = case.get("rows") or []
    return (len(rows) >= 2 or len(case.get("cuts", [])) >= 2 or any(r[0] != r[1] for r in rows) or case["form"] == "array"
            or case["cols"] != DEFAULT_COLS or case.get("h5opts", "default") != "default" or bool(case.get("opts"))
            or case.get("id_dtype", "int64") != "int64" or bool(case.get("rep")) or bool(case.get("history")))


# --------------------------------------------------------------------------- run
def in_model_scope(case, out, mo):
    """the full-matrix read is modelled for a table that is a valid CSR body: sorted by (bin1, bin2), in range, upper
    triangular in symmetric mode (what a malformed stream leaves behind is read through indexes that do not describe it)"""
    if case.get("skip_read"):
        return False
    n = G.nbins_of(case["widths"])
    keys = [(r[0], r[1]) for r in mo["pixels"]]
    return (keys == sorted(keys) and all(0 <= a < n and 0 <= b_ < n for a, b_ in keys)
            and (not mo["symm"] or all(a <= b_ for a, b_ in keys)))


def check_case(ctx, case, out, mo):
    valid = is_valid_input(case)
    ctx.case(case, nontrivial=nontrivial(case), kind=f"{case['grp']}:{case['form']}:{'symm' if case['symm'] else 'square'}")
    # 1. correspondence model vs implementation
    ctx.compare("create result", case, out.get("result"), mo["result"])
    if out.get("result") == "ok" and mo["result"] == "ok" and "read_error" not in out:
        ctx.compare("raw HDF5 columns", case, out["raw"], mo["raw"])
        ctx.compare("nnz attribute", case, out["nnz"], mo["nnz"])
        if not case.get("skip_sum"):
            ctx.compare("sum attribute", case, out["sum"], mo["sum"])
        ctx.compare("storage-mode", case, out["storage-mode"], "symmetric-upper" if mo["symm"] else "square")
        ctx.compare("pixels()[:]", case, out["pixels"], mo["pixels"])
        if in_model_scope(case, out, mo):
            ctx.compare("dense matrix", case, out["dense"], mo["dense"])
            ctx.compare("sparse matrix", case, out["sparse"], mo["sparse"])
    elif out.get("result") == "ok" and "read_error" in out and not case.get("skip_read"):
        ctx.disagree("read back", case, out["read_error"], "ok")
    # 2. property oracle
    if case.get("expect") == "refused":
        # a value outside the range of the stored dtype must be refused with an error - never stored as some other value
        if out.get("result") == "ok":
            ctx.fail(case, {"violations": [["a value that does not fit the stored dtype was accepted", str(case["offending"]),
                                            str(out.get("pixels", out.get("read_error")))[:300]]]}, None)
        elif out.get("result") not in ("ErrRange", "ValueError", "OverflowError"):
            ctx.fail(case, {"violations": [["refused, but not with a ValueError about the dtype", "ValueError", str(out.get("result"))]]}, None)
    if valid:
        bad = oracle(case, out)
        if bad:
            only_assembly = all(b_[0] == "assembly" for b_ in bad)
            sig = assembly_signature(case) if only_assembly else None
            ctx.fail(case, {"violations": [list(map(str, b_)) for b_ in bad[:4]]}, sig)



# --------------------------------------------------------------------------- one large round trip (> 1,000,000 records)
BIG_N = 2100          # bins
BIG_ROWS = 1000       # rows 0..999 hold BIG_PER records each, so that row 1000 begins exactly at record 1,000,000
BIG_PER = 1000        # (index_pixels run-length-encodes bin1_id in blocks of 1,000,000 records)


def big_case(form, symm):
    return {"grp": "big", "nbins": BIG_N, "full_rows": BIG_ROWS, "per_row": BIG_PER, "symm": symm, "form": form, "nchunks": 7,
            "extra": [[1000, [1000, 1500, 2099]], [1001, [1001, 1002]]] if symm else [[1000, [0, 1000, 2099]], [1001, [5, 1001]]]}


def big_records(case):
    """numpy columns of the (sorted) input, from the case parameters only"""
    R, P = case["full_rows"], case["per_row"]
    b1 = np.repeat(np.arange(R, dtype=np.int64), P)
    first = b1 if case["symm"] else b1 // 2            # square mode: rows reach below the diagonal
    b2 = first + np.tile(np.arange(P, dtype=np.int64), R)
    for r, cs in case["extra"]:
        b1 = np.concatenate([b1, np.full(len(cs), r, dtype=np.int64)])
        b2 = np.concatenate([b2, np.array(cs, dtype=np.int64)])
    v = 1 + (b1 * 7 + b2 * 3) % 97
    return b1, b2, v


def big_impl(case, path):
    import cooler
    import h5py
    from gen_bins import blocks_from_widths, table_from_blocks
    n = case["nbins"]
    bins = table_from_blocks(blocks_from_widths([[10] * 1500, [10] * (n - 1501) + [4]]))
    b1, b2, v = big_records(case)
    if os.path.exists(path):
        os.remove(path)
    if case["form"] == "frame":
        px = pd.DataFrame({"bin1_id": b1, "bin2_id": b2, "count": v})
        kw = {}
    else:
        # 7 chunks, one of them empty, one chunk boundary right next to the 1,000,000-record block boundary
        edges = [0, 150_000, 400_000, 400_000, 700_001, 1_000_000 - 1, 1_000_000 + 2, len(b1)]
        assert len(edges) == case["nchunks"] + 1
        px = ({"bin1_id": b1[a:b_], "bin2_id": b2[a:b_], "count": v[a:b_]} for a, b_ in zip(edges[:-1], edges[1:]))
        kw = {"ordered": True}
    st, msg = G.guarded(lambda: cooler.create_cooler(path, bins, px, symmetric_upper=case["symm"], **kw), 120)
    if st != "ok":
        return {"result": G.err_kind_of_message(st, msg)}

    def read():
        out = {"result": "ok"}
        with h5py.File(path, "r") as f:
            out["nnz"] = int(f.attrs["nnz"])
            out["sum"] = int(f.attrs["sum"])
            out["raw_len"] = [int(f["pixels"][c].shape[0]) for c in ("bin1_id", "bin2_id", "count")]
            out["bin1_offset"] = [int(x) for x in f["indexes/bin1_offset"][:]]
        clr = cooler.Cooler(path)
        lo, hi = 1_000_000 - 3, 1_000_000 + 5
        df = clr.pixels()[lo:hi]
        out["pixels_window"] = [[int(a), int(b_), int(c)] for a, b_, c in zip(df["bin1_id"], df["bin2_id"], df["count"])]
        full = clr.pixels()[:]
        out["pixels_equal"] = bool(len(full) == len(b1) and np.array_equal(full["bin1_id"].values, b1)
                                   and np.array_equal(full["bin2_id"].values, b2) and np.array_equal(full["count"].values, v))
        rows = {}
        for r in (998, 999, 1000, 1001, 1002):
            sp = clr.matrix(balance=False, sparse=True)[r:r + 1, :]
            rows[str(r)] = sorted([r + int(i), int(j), int(x)] for i, j, x in zip(sp.row, sp.col, sp.data))
        out["rows"] = rows
        sp = clr.matrix(balance=False, sparse=True)[998:1002, :]
        out["block"] = sorted([998 + int(i), int(j), int(x)] for i, j, x in zip(sp.row, sp.col, sp.data))
        m = clr.matrix(balance=False)[996:1004, 990:1010]
        out["dense_window"] = [[int(x) for x in row_] for row_ in m]
        return out

    st, val = G.guarded(read, 120)
    return val if st == "ok" else {"result": "ok", "read_error": st + ": " + val[:200]}


def big_reference(case):
    """expected observables from the input records only"""
    b1, b2, v = big_records(case)
    exp = {"nnz": len(b1), "sum": int(v.sum())}
    lo, hi = 1_000_000 - 3, 1_000_000 + 5
    exp["pixels_window"] = [[int(a), int(b_), int(c)] for a, b_, c in zip(b1[lo:hi], b2[lo:hi], v[lo:hi])]

    def row_trip(r):
        m = b1 == r
        t = [[r, int(j), int(x)] for j, x in zip(b2[m], v[m])]
        if case["symm"]:
            m2 = (b2 == r) & (b1 != r)
            t += [[r, int(i), int(x)] for i, x in zip(b1[m2], v[m2])]
        return sorted(t)

    exp["rows"] = {str(r): row_trip(r) for r in (998, 999, 1000, 1001, 1002)}
    exp["block"] = sorted(t for r in (998, 999, 1000, 1001) for t in row_trip(r))
    D = np.zeros((8, 20), dtype=np.int64)
    for r in range(996, 1004):
        for _, j, x in row_trip(r):
            if 990 <= j < 1010:
                D[r - 996, j - 990] += x
    exp["dense_window"] = D.tolist()
    exp["row_nnz"] = np.bincount(b1, minlength=case["nbins"]).tolist()
    return exp


def big_oracle(case, out, exp):
    if out.get("result") != "ok":
        return [("creation of a valid input failed", "ok", out.get("result"))]
    if "read_error" in out:
        return [("reading back failed", "ok", out["read_error"])]
    bad = []
    for k in ("nnz", "sum", "pixels_window", "dense_window", "block"):
        if out[k] != exp[k]:
            bad.append((k, str(exp[k])[:300], str(out[k])[:300]))
    if out["raw_len"] != [exp["nnz"]] * 3:
        bad.append(("raw column lengths", exp["nnz"], out["raw_len"]))
    if not out["pixels_equal"]:
        bad.append(("pixels()[:]", "the input records", "differs"))
    for r, t in exp["rows"].items():
        if out["rows"][r] != t:
            bad.append((f"sparse row {r}: {len(t)} entries expected", str(t[:6]), f"{len(out['rows'][r])} entries " + str(out["rows"][r][:6])))
    return bad


def run_big(ctx):
    """> 10^6 records, a row starting exactly at record 1,000,000: the only scope in which the blockwise run-length
    encoding inside index_pixels matters for the matrix read"""
    variants = [("frame", True), ("chunks", True)] + ([("chunks", False), ("frame", False)] if ctx.tier == "thorough" else [])
    path = str(ctx.tmp / "big.cool")
    done = []
    for form, symm in variants:
        case = big_case(form, symm)
        out = big_impl(case, path)
        exp = big_reference(case)
        ctx.case(case, nontrivial=True, kind=f"big:{form}:{'symm' if symm else 'square'}")
        done.append((case, out, exp))
        bad = big_oracle(case, out, exp)
        if bad:
            ctx.fail(case, {"violations": [list(map(str, b_)) for b_ in bad[:5]]}, None)
        if os.path.exists(path):
            os.remove(path)
    # model: the row extents are the running sums of the per-row record counts (only the counts go through coqc, once per
    # distinct count vector)
    vecs = []
    for _, _, exp in done:
        if exp["row_nnz"] not in vecs:
            vecs.append(exp["row_nnz"])
    mos = C.coq_eval("From Cooler Require Import Model.Create.",
                     [f"rev (fold_left (fun acc c => (hd 0 acc + c) :: acc) {C.zl(vv)} [0])" for vv in vecs], tmpdir=ctx.tmp / "bigmodel")
    for case, out, exp in done:
        if out.get("result") == "ok" and "read_error" not in out:
            ctx.compare("bin1_offset = running sum of per-row record counts", case, out["bin1_offset"], list(mos[vecs.index(exp["row_nnz"])]))


def _impl_worker(args):
    case, base = args
    wd = os.path.join(base, f"p{os.getpid()}")            # one scratch directory per worker process
    os.makedirs(wd, exist_ok=True)
    return impl_case(case, os.path.join(wd, "c.cool"))


def run_impl_cases(cases, d):
    """the implementation side of every case (each one is independent of the others: own process history, own files);
    4 worker processes, results in case order; sequential fallback if the pool cannot be used"""
    import multiprocessing as mp
    args = [(c, str(d)) for c in cases]
    if os.environ.get("VERIF_SERIAL") != "1":
        try:
            with mp.get_context("fork").Pool(4) as pool:
                return list(pool.imap(_impl_worker, args, chunksize=6))
        except Exception as e:  # noqa: BLE001
            print("note: worker pool unavailable (%s), running sequentially" % type(e).__name__)
    return [_impl_worker(a) for a in args]


def run(ctx):
    import simplejson
    cases = gen_cases(ctx)
    d = ctx.tmp / "coolers"
    d.mkdir(exist_ok=True)
    outs = run_impl_cases(cases, d)
    exprs = [model_expr(c) for c in cases]
    model = C.coq_eval("From Cooler Require Import Model.Create.", exprs, preamble=MODEL_PREAMBLE, tmpdir=ctx.tmp / "model", shard=60, jobs=4)
    for case, out, mv in zip(cases, outs, model):
        check_case(ctx, case, out, parse_model(mv))

    # info decode rule for word-like strings: model json_word vs the real info()
    words = [w for w in ASSEMBLY_WORDS]
    mw = C.coq_eval("From Cooler Require Import Model.Create.", ["map json_word " + C.lst(words, C.s)], tmpdir=ctx.tmp / "words")[0]
    byword = {c["assembly"]: o for c, o in zip(cases, outs) if c["grp"] == "assembly"}
    for w, m in zip(words, mw):
        got = byword[w].get("info_assembly")
        if isinstance(got, bool):
            cls = ("Some", ("C", "JBool", got))
        elif got is None:
            cls = ("Some", ("C", "JNull"))
        elif isinstance(got, int):
            cls = ("Some", ("C", "JInt", got))
        elif isinstance(got, float):
            cls = ("Some", ("C", "JFloatLit"))
        else:
            cls = None if got == w else ("other", repr(got))
        ctx.compare("info() decoding of a word-like string attribute", {"assembly": w}, cls, m)

    # the hypothesis of the metadata theorem, on every generated document
    docs = [c["metadata"] for c in cases if c.get("metadata") is not None]
    for doc in docs:
        if simplejson.loads(simplejson.dumps(doc)) != doc:
            ctx.disagree("hypothesis loads(dumps d) = d", {"metadata": doc}, simplejson.loads(simplejson.dumps(doc)), doc)
    ctx.extra["scopes"] = {"cases": len(cases), "metadata_documents": len(docs),
                           "by_group": {g: sum(1 for c in cases if c["grp"] == g) for g in sorted({c["grp"] for c in cases})}}
    run_big(ctx)
    ctx.exhaustive = True


def replay(ctx, case):
    if case.get("grp") == "big":
        out = big_impl(case, str(ctx.tmp / "big.cool"))
        bad = big_oracle(case, out, big_reference(case))
        for b_ in bad:
            print("violation:", b_)
        import shutil
        shutil.rmtree(ctx.tmp, ignore_errors=True)
        return not bad
    out = impl_case(case, str(ctx.tmp / "replay.cool"))
    if case.get("expect") == "refused":
        ok = out.get("result") != "ok"
        print("a value outside the stored dtype's range:", case.get("offending"), "->", out.get("result"), "" if ok else str(out.get("pixels"))[:300])
        import shutil
        shutil.rmtree(ctx.tmp, ignore_errors=True)
        return ok
    if not is_valid_input(case):
        print("malformed case: no property oracle applies; implementation result:", out.get("result"))
        return True
    bad = oracle(case, out)
    for b_ in bad:
        print("violation:", b_)
    import shutil
    shutil.rmtree(ctx.tmp, ignore_errors=True)
    return not bad
