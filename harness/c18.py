"""C18 — renaming chromosomes changes names only.

Correspondence: random coolers (1-5 chromosomes, fixed and variable bins, random upper-triangular
pixels, at the file root or a nested group, bins/chrom stored as HDF5 enum or as plain integers)
x chains of 1-3 partial renaming maps (longer/shorter names, swaps, keys that do not occur,
identity entries) whose result is duplicate-free.  cooler.rename_chroms is applied to an open
Cooler object; observed on the same object and after reopening: chromnames, chromsizes, the labels
of bins()[:], extent and matrix/bins fetches by every new name, and the raw content of every dataset
(h5py).  The Gallina model (coq/Model/Rename.v over the object store of Model/H5.v) is built from the
raw content of the file before the renaming and must produce the same names, sizes, labels, extents
and the same raw tree (payloads, enum headers, object identities).

Property oracle (own python/numpy reading, never cooler for the expected value): names = the maps
applied in sequence in the original order; labels mapped; every dataset other than chroms/name and
bins/chrom byte-identical; bin codes identical; extents = first/last row of the chromosome in the
bin table; matrix fetch by new name = dense block rebuilt from the pixel list.
"""
from __future__ import annotations

import os

import h5py
import numpy as np
import pandas as pd

import coqio as C
import gen_c15 as G

PROP = "C18"
RULE = ("seeded random coolers (1-5 chromosomes from a pool of names incl. digits/underscores/prefixes of each other, fixed or variable bins, "
        "random pixels, root or nested group, enum or integer chromosome encoding) x chains of 1-3 partial renaming maps (swaps, longer/shorter, "
        "absent keys, identity entries) with duplicate-free results; in 60% of the chains of length >= 2 the renamings are issued through DIFFERENT Cooler objects of the "
        "same file opened before the first renaming (stale cached names), checked after each call, on the last issuing object and after reopening; plus a fixed corpus; non-trivial = at least one chromosome actually changes its name; distinct by input hash")
TRUSTED = ["h5py raw reads are the observation channel for dataset contents and enum headers",
           "pandas Index.rename(dict) is modelled as simultaneous substitution"]
ASSUMPTIONS = ["renaming maps whose result has no duplicate names (claimed domain, DESIGN section 8)", "ASCII chromosome names"]
RESIDUE = ["the integer chromosome encoding is produced by rewriting bins/chrom with raw h5py in the small cases; the enum-header overflow that makes "
           "cooler itself choose it (at creation or in _rename_chroms) is reached through the API by the size sweep (2500 contigs, oracle only: HDF5's "
           "header-size limit is not part of the store model)",
           "HDF5 semantics are modelled by the object store"]

POOL = ["chr1", "chr2", "chr10", "chrX", "chrM", "1", "2", "10", "X", "MT", "a", "b", "scaffold_12", "chr1_random", "c", "II", "chrUn_gl000220"]
NEWPOOL = POOL + ["chr3", "Z", "y", "chromosome_one_with_a_long_name", "q", "3", "chr2L", "x"]


# ------------------------------------------------------------------ generation
def gen_cooler(rng):
    n = rng.randint(1, 5)
    names = rng.sample(POOL, n)
    lengths = [rng.randint(1, 60) for _ in range(n)]
    variable = rng.random() < 0.35
    rows = []
    for nm, L in zip(names, lengths):
        if variable:
            cuts = sorted(set(rng.sample(range(1, L), min(L - 1, rng.randint(0, 3))))) if L > 1 else []
            edges = [0] + cuts + [L]
        else:
            edges = list(range(0, L, 10)) + [L]
        for s, e in zip(edges[:-1], edges[1:]):
            rows.append((nm, s, e))
    nb = len(rows)
    px = {}
    for _ in range(rng.randint(0, 3 * nb)):
        i, j = rng.randrange(nb), rng.randrange(nb)
        i, j = min(i, j), max(i, j)
        px[(i, j)] = rng.randint(1, 9)
    pix = sorted((i, j, v) for (i, j), v in px.items())
    return {"names": names, "lengths": lengths, "bins": rows, "pixels": pix,
            "root": rng.choice(["/", "/", "/res/10", "/m"]), "enc": rng.choice(["enum", "enum", "int"])}


def apply_map(names, m):
    return [m.get(x, x) for x in names]


def gen_maps(rng, names):
    chain = []
    cur = list(names)
    for _ in range(rng.choice([1, 1, 2, 3])):
        for _try in range(20):
            kind = rng.choice(["partial", "partial", "swap", "all", "absent", "identity"])
            m = {}
            if kind == "swap" and len(cur) >= 2:
                a, b = rng.sample(cur, 2)
                m = {a: b, b: a}
                if len(cur) >= 3 and rng.random() < 0.5:      # a 3-cycle
                    c3 = rng.choice([x for x in cur if x not in (a, b)])
                    m = {a: b, b: c3, c3: a}
            elif kind == "all":
                m = {x: rng.choice(NEWPOOL) for x in cur}
            elif kind == "absent":
                m = {rng.choice(NEWPOOL): rng.choice(NEWPOOL), rng.choice(cur): rng.choice(NEWPOOL)}
            elif kind == "identity":
                x = rng.choice(cur)
                m = {x: x}
                if len(cur) > 1:
                    m[rng.choice(cur)] = rng.choice(NEWPOOL)
            else:
                for x in rng.sample(cur, rng.randint(1, len(cur))):
                    m[x] = rng.choice(NEWPOOL)
            res = apply_map(cur, m)
            if len(set(res)) == len(res):
                chain.append(m)
                cur = res
                break
    return chain


def corpus():
    base = {"names": ["chr1", "chr2", "chrX"], "lengths": [25, 20, 7],
            "bins": [("chr1", 0, 10), ("chr1", 10, 20), ("chr1", 20, 25), ("chr2", 0, 10), ("chr2", 10, 20), ("chrX", 0, 7)],
            "pixels": [(0, 0, 3), (0, 4, 1), (1, 2, 5), (2, 5, 2), (3, 3, 7), (4, 5, 9), (5, 5, 1)], "root": "/", "enc": "enum"}
    out = []
    for enc in ("enum", "int"):
        for root in ("/", "/res/10"):
            c = dict(base, enc=enc, root=root)
            out.append((c, [{"chr1": "1"}]))                                   # the shape of the existing unit test
            out.append((c, [{"chr1": "chr2", "chr2": "chr1"}]))                # swap (simultaneous substitution)
            out.append((c, [{"chr1": "chr2", "chr2": "chrX", "chrX": "chr1"}]))  # 3-cycle
            out.append((c, [{"chr1": "a_much_longer_name_than_before"}, {"a_much_longer_name_than_before": "s"}, {"s": "chr1", "chr2": "2"}]))  # chain of 3
            out.append((c, [{"nope": "chr1", "chrX": "X"}]))                   # absent key whose value collides with an existing name: not applied
            out.append((c, [{}]))
    return out


def stale_corpus():
    """renamings through Cooler objects whose cached names are stale w.r.t. an earlier renaming of the same file;
    maps mixing entries known and unknown to the stale cache"""
    base = {"names": ["chr1", "chr2", "chr3"], "lengths": [25, 20, 7],
            "bins": [("chr1", 0, 10), ("chr1", 10, 20), ("chr1", 20, 25), ("chr2", 0, 10), ("chr2", 10, 20), ("chr3", 0, 7)],
            "pixels": [(0, 0, 3), (0, 4, 1), (1, 2, 5), (2, 5, 2), (3, 3, 7), (4, 5, 9), (5, 5, 1)], "root": "/", "enc": "enum"}
    out = []
    for enc in ("enum", "int"):
        c = dict(base, enc=enc)
        out.append((c, [{"chr1": "A"}, {"A": "chrom_one", "chr3": "C"}], [0, 1]))
        out.append((c, [{"chr1": "A"}, {"A": "B"}, {"B": "chr1", "chr2": "two"}], [0, 1, 2]))
        out.append((c, [{"chr1": "chr2", "chr2": "chr1"}, {"chr1": "x"}], [1, 0]))
        out.append((c, [{"chr2": "M"}, {"M": "chr2"}, {"chr2": "N", "nope": "chr1"}], [0, 1, 0]))
    return out


# ------------------------------------------------------------------ implementation side
def build(d, k, c):
    import cooler
    fn = os.path.join(d, f"c{k}.cool")
    uri = fn if c["root"] == "/" else fn + "::" + c["root"]
    bins = pd.DataFrame(c["bins"], columns=["chrom", "start", "end"])
    px = pd.DataFrame({"bin1_id": np.array([p[0] for p in c["pixels"]], dtype=np.int64),
                       "bin2_id": np.array([p[1] for p in c["pixels"]], dtype=np.int64),
                       "count": np.array([p[2] for p in c["pixels"]], dtype=np.int64)})
    cooler.create_cooler(uri, bins, px)
    if c["enc"] == "int":
        with h5py.File(fn, "r+") as h:
            g = h[c["root"]]["bins"]
            codes = g["chrom"][:].astype("int32")
            del g["chrom"]
            ds = g.create_dataset("chrom", data=codes)
            ds.attrs["enum_path"] = "/chroms/name"
    return fn, uri


def raw_tables(fn, root):
    out = {}
    with h5py.File(fn, "r") as h:
        g = h[root]
        attrs = {k: (int(v) if isinstance(v, (np.integer, int)) else (v.decode() if isinstance(v, bytes) else str(v)))
                 for k, v in g.attrs.items() if k not in G.VOLATILE_ATTRS}
        for t in g.keys():
            out[t] = {}
            for col in g[t].keys():
                out[t][col] = G._payload(g[t][col])
    return out, attrs


def observe(c, names_now, gone=()):
    """everything read through the Cooler object c; a read that raises is recorded as its exception class"""
    def rd(fn):
        o, v = G.guarded(fn)
        return v if o == "Ok" else o

    def table():
        b = c.bins()[:]
        return {"labels": [str(x) for x in b["chrom"]], "starts": [int(x) for x in b["start"]], "ends": [int(x) for x in b["end"]]}
    t = rd(table)
    if not isinstance(t, dict):
        t = {"labels": t, "starts": t, "ends": t}
    obs = {"chromnames": rd(lambda: [str(x) for x in c.chromnames]),
           "chromsizes": rd(lambda: [[str(k), int(v)] for k, v in c.chromsizes.items()]),
           "labels": t["labels"], "starts": t["starts"], "ends": t["ends"],
           "extent": {}, "matrix": {}, "binsfetch": {}}

    def joined():
        j = c.pixels(join=True)[:]
        return [[str(a), str(b_)] for a, b_ in zip(j["chrom1"], j["chrom2"])]
    obs["join"] = rd(joined)
    # a name that no longer exists must not be accepted any more
    def expect_error(fn):                 # (errors are the expected answer here: no collector run per error)
        try:
            return fn()
        except Exception as e:  # noqa: BLE001
            return G.exc_class(e)
    obs["gone"] = {nm: [expect_error(lambda: [int(x) for x in c.extent(nm)]),
                        expect_error(lambda: len(c.matrix(balance=False).fetch(nm)))] for nm in gone}
    for nm in names_now:
        obs["extent"][nm] = rd(lambda: [int(x) for x in c.extent(nm)])
        obs["matrix"][nm] = rd(lambda: [[int(x) for x in row] for row in c.matrix(balance=False).fetch(nm)])

        def bf():
            v = c.bins().fetch(nm)
            return [[str(a), int(s), int(e)] for a, s, e in zip(v["chrom"], v["start"], v["end"])]
        obs["binsfetch"][nm] = rd(bf)
    return obs


STORE_FORMS = ("path", "uri", "uri_noslash", "root_kw", "file_rw", "group_rw", "file_ro", "group_ro")
RO_FORMS = ("file_ro", "group_ro")


def open_cooler(fn, root, form, handles):
    """a Cooler object backed in one of the ways the constructor accepts"""
    import cooler
    cs = G.comps(root)
    if form == "path" and not cs:
        return cooler.Cooler(fn)
    if form in ("path", "uri"):
        return cooler.Cooler(fn + "::/" + "/".join(cs))
    if form == "uri_noslash":
        return cooler.Cooler(fn + "::" + "/".join(cs)) if cs else cooler.Cooler(fn + "::/")
    if form == "root_kw":
        return cooler.Cooler(fn, root="/" + "/".join(cs))
    h = h5py.File(fn, "r" if form in RO_FORMS else "r+")
    handles.append(h)
    if form in ("file_rw", "file_ro") and not cs:
        return cooler.Cooler(h)                       # the File object itself
    return cooler.Cooler(h["/" + "/".join(cs)])       # a Group of the (multi-collection) file


def run_impl(d, k, c, maps, objs=None):
    """objs[i] = which Cooler object (all opened BEFORE the first renaming, so later ones hold stale cached
    names) issues the i-th rename_chroms; default: one object for the whole chain"""
    import cooler
    fn, uri = build(d, k, c)
    before_tables, before_attrs = raw_tables(fn, c["root"])
    objs = list(objs) if objs else [0] * len(maps)
    form = c.get("store") or "uri"
    handles = []
    clrs = [open_cooler(fn, c["root"], form, handles) for _ in range(max(objs + [0]) + 1)]
    clr = clrs[objs[-1]] if objs else clrs[0]
    sample = c.get("sample") or list(range(len(c["names"])))
    pre = observe(clrs[0], [c["names"][i] for i in sample])
    outcome = "Ok"
    after_call = []
    for m, oi in zip(maps, objs):
        o, _ = G.guarded(cooler.rename_chroms, clrs[oi], dict(m))
        if o != "Ok":
            outcome = o
            break
        o2, v2 = G.guarded(lambda: [str(x) for x in clrs[oi].chromnames])
        after_call.append(v2 if o2 == "Ok" else o2)
    names_now = c["names"]
    for m in maps:
        names_now = apply_map(names_now, m)
    q_names = [names_now[i] for i in sample]
    gone = [x for x in (c["names"][i] for i in sample) if x not in names_now]
    same = observe(clr, q_names, gone) if outcome == "Ok" else None
    stale_names = None
    if outcome != "Ok":
        o9, v9 = G.guarded(lambda: [str(x) for x in clr.chromnames])
        stale_names = v9 if o9 == "Ok" else o9
    for h in handles:                      # the live handles are released before the file is read again by name
        try:
            h.close()
        except Exception:  # noqa: BLE001
            pass
    reopened = None
    if outcome == "Ok":
        o2, c2 = G.guarded(cooler.Cooler, uri)
        if o2 == "Ok":
            reopened = observe(c2, q_names, gone)
        else:
            outcome = "reopen:" + o2
    after_tables, after_attrs = raw_tables(fn, c["root"])
    o3, dump = G.guarded(lambda: None if c.get("big") else G.canon_dump(G.raw_dump_file(fn, 5)))
    if o3 != "Ok":
        dump = "unreadable:" + o3
    return {"outcome": outcome, "pre": pre, "same": same, "reopened": reopened, "before": (before_tables, before_attrs),
            "after": (after_tables, after_attrs), "dump": dump, "names_now": names_now, "after_call": after_call,
            "names_after_refusal": stale_names}


# ------------------------------------------------------------------ oracle
def dense_block(c, lo, hi):
    n = hi - lo
    M = [[0] * n for _ in range(n)]
    for i, j, v in c["pixels"]:
        if lo <= i < hi and lo <= j < hi:
            M[i - lo][j - lo] = v
            M[j - lo][i - lo] = v
    return M


# (D31, fixed: pixels(join=True) on integer-encoded bins/chrom gave integer ids; the int-encoded corpus cases and the
#  enum->int size sweep keep it as a hard observable)
def oracle(c, maps, r):
    bad = []
    if c.get("store") in RO_FORMS and maps and any(maps):
        # a Cooler wrapping a READ-ONLY handle: the renaming is refused and nothing changes
        if r["outcome"] == "Ok":
            bad.append({"what": "rename_chroms through a read-only handle did not refuse"})
        if r["after"] != r["before"]:
            bad.append({"what": "a refused rename (read-only handle) changed the file"})
        if r["names_after_refusal"] not in (None, list(c["names"])):
            bad.append({"what": "names on the object after a refused rename", "got": r["names_after_refusal"]})
        return bad
    if r["outcome"] != "Ok":
        return [{"what": "rename_chroms raised", "outcome": r["outcome"]}]
    exp_names = r["names_now"]
    cur = list(c["names"])
    for i, m in enumerate(maps):          # sequential composition of the simultaneous substitutions on the FILE's names
        cur = apply_map(cur, m)
        if i < len(r["after_call"]) and r["after_call"][i] != cur:
            bad.append({"what": "chromnames of the issuing object right after its own call", "call": i,
                        "got": r["after_call"][i], "expected": cur})
    old_of = dict(zip(exp_names, c["names"]))
    lab_old = [b[0] for b in c["bins"]]
    for tag in ("same", "reopened"):
        o = r[tag]
        if o["chromnames"] != exp_names:
            bad.append({"what": f"chromnames ({tag} object)", "got": o["chromnames"], "expected": exp_names})
        if o["chromsizes"] != [[n, L] for n, L in zip(exp_names, c["lengths"])]:
            bad.append({"what": f"chromsizes ({tag} object)", "got": o["chromsizes"]})
        new_of = dict(zip(c["names"], exp_names))
        if o["labels"] != [new_of[x] for x in lab_old]:
            bad.append({"what": f"bin labels ({tag} object)", "got": o["labels"][:12] if isinstance(o["labels"], list) else o["labels"]})
        if o["starts"] != [b[1] for b in c["bins"]] or o["ends"] != [b[2] for b in c["bins"]]:
            bad.append({"what": f"bin coordinates changed ({tag} object)"})
        for nm, res in o.get("gone", {}).items():
            if any(not isinstance(x, str) for x in res):
                bad.append({"what": f"a name that was renamed away is still accepted ({tag} object)", "name": nm, "got": res})
        exp_join = [[new_of[lab_old[i]], new_of[lab_old[j]]] for i, j, _ in c["pixels"]]
        if o["join"] != exp_join:
            bad.append({"what": f"chromosome labels of pixels(join=True) ({tag} object)", "got": o["join"][:6], "expected": exp_join[:6]})
        for nm in [exp_names[i] for i in (c.get("sample") or range(len(exp_names)))]:
            old = old_of[nm]
            rows = [i for i, b in enumerate(c["bins"]) if b[0] == old]
            lo, hi = rows[0], rows[-1] + 1
            if o["extent"][nm] != [lo, hi]:
                bad.append({"what": f"extent by new name ({tag} object)", "name": nm, "got": o["extent"][nm], "expected": [lo, hi]})
            if o["matrix"][nm] != dense_block(c, lo, hi):
                bad.append({"what": f"matrix fetch by new name ({tag} object)", "name": nm, "got": o["matrix"][nm]})
            if o["matrix"][nm] != r["pre"]["matrix"][old]:
                bad.append({"what": f"matrix fetch by new name differs from the fetch by the old name before ({tag} object)", "name": nm})
            if o["binsfetch"][nm] != [[nm, b[1], b[2]] for b in c["bins"] if b[0] == old]:
                bad.append({"what": f"bins fetch by new name ({tag} object)", "name": nm, "got": o["binsfetch"][nm]})
    bt, ba = r["before"]
    at, aa = r["after"]
    if ba != aa:
        bad.append({"what": "attributes of the collection changed"})
    for t in bt:
        for col in bt[t]:
            if (t, col) in (("chroms", "name"), ("bins", "chrom")):
                continue
            if at.get(t, {}).get(col) != bt[t][col]:
                bad.append({"what": "an untouched dataset changed", "dataset": f"{t}/{col}"})
    if sorted(at) != sorted(bt) or any(sorted(at[t]) != sorted(bt[t]) for t in bt):
        bad.append({"what": "set of datasets changed"})
    if at["chroms"]["name"] != ["S", exp_names]:
        bad.append({"what": "chroms/name on disk", "got": at["chroms"]["name"]})
    bc, ac = bt["bins"]["chrom"], at["bins"]["chrom"]
    if ac[-1] != bc[-1]:
        bad.append({"what": "bin chromosome codes changed"})
    if ac[0] == "E" and ac[1] != exp_names:
        bad.append({"what": "enum header of bins/chrom", "got": ac[1], "expected": exp_names})
    return bad


# ------------------------------------------------------------------ model side
IMPORTS = "From Cooler Require Import Model.Rename."


def payload_lit(pl):
    if pl[0] == "E":
        return ("E", pl[1], pl[2])
    return (pl[0], pl[1])


def model_expr(c, maps, before):
    tables, attrs = before
    order = [t for t in ("chroms", "bins", "pixels", "indexes") if t in tables] + [t for t in tables if t not in ("chroms", "bins", "pixels", "indexes")]
    tlit = {t: {col: payload_lit(pl) for col, pl in tables[t].items()} for t in tables}
    spec = G.coq_spec(tlit, attrs, order=order)
    root = G.coq_path(c["root"])
    ms = C.lst([C.lst([C.tup(C.s(k), C.s(v)) for k, v in m.items()]) for m in maps])
    names_now = c["names"]
    for m in maps:
        names_now = apply_map(names_now, m)
    return (f"let w0 := snd (create world0 FA {root} false {spec}) in "
            f"match resolve w0 FA {root} with "
            f"| Found f g => match rename_chain w0 f g {ms} with "
            f"  | Some w1 => Some (chromnames w1 f g, chromsizes w1 f g, bin_labels w1 f g, "
            f"map (extent w1 f g) {C.lst(names_now, C.s)}, dump_file 5 w1 FA) "
            f"  | None => None end "
            f"| _ => None end")


def big_case(n, len0, kind, rng):
    """n contigs (one or two bins each) with names of length len0; the renaming chain realises one encoding
    transition: enum->enum (few short renames), enum->int (all names become long: the enum header no longer fits
    in the HDF5 object header), int->int (long names from the start), enum->int->int"""
    def nm(i, L, tag):
        base = f"{tag}{i:05d}"
        return base + "_" * max(0, L - len(base))
    names = [nm(i, len0, "c") for i in range(n)]
    rows = []
    for i, x in enumerate(names):
        rows.append((x, 0, 7))
        if i % 997 == 3:
            rows.append((x, 7, 9))
    nb = len(rows)
    pix = sorted({(min(a, b), max(a, b)): v for a, b, v in
                  [(0, 1, 2), (1, nb - 1, 3), (5, 7, 4), (nb - 2, nb - 1, 5), (3, 4, 6), (nb // 2, nb // 2, 7)]}.items())
    pix = [(k[0], k[1], v) for k, v in pix]
    lengths = [max(r[2] for r in rows if r[0] == x) for x in names] if n <= 50 else None
    if lengths is None:
        lengths = [9 if i % 997 == 3 else 7 for i in range(n)]
    idx = sorted(set([0, 1, 3, n // 2, n - 2, n - 1] + [rng.randrange(n) for _ in range(3)]))
    if kind == "enum->enum":
        maps = [{names[i]: nm(i, len0, "r") for i in idx[:4]}]
    elif kind == "enum->int":
        maps = [{x: nm(i, 31, "L") for i, x in enumerate(names)}]
    elif kind == "int->int":
        maps = [{names[i]: nm(i, len0 + 3, "q") for i in idx}, {names[1]: "tmp", names[0]: names[1]}]
        maps[1] = {k: v for k, v in maps[1].items() if k not in maps[0]} or {"zz": "yy"}
    else:
        maps = [{x: nm(i, 31, "L") for i, x in enumerate(names)}, {nm(i, 31, "L"): nm(i, 6, "s") for i in idx}]
    return {"names": names, "lengths": lengths, "bins": rows, "pixels": pix, "root": "/", "enc": "enum",
            "big": kind, "sample": idx}, maps


def run_big(ctx, d, k0):
    """size sweep over contig count x name length for the three encoding transitions (oracle only: the
    header-size limit that triggers the integer fallback is HDF5's, not part of the store model)"""
    rng = ctx.rng
    grid = [(2500, 5, "enum->enum"), (2500, 5, "enum->int"), (2500, 31, "int->int"), (2500, 5, "enum->int->int")]
    if ctx.tier == "thorough":
        grid += [(n, L, kind) for n in (500, 1500, 4000) for L in (5, 16) for kind in ("enum->int", "enum->enum")]
        grid += [(n, L, "int->int") for n in (2200, 4000) for L in (31, 60)]
    seen = {}
    for k, (n, L, kind) in enumerate(grid):
        c, maps = big_case(n, L, kind, rng)
        r = run_impl(d, k0 + k, c, maps)
        try:
            os.remove(os.path.join(d, f"c{k0 + k}.cool"))
        except OSError:
            pass
        enc0 = "enum" if r["before"][0]["bins"]["chrom"][0] == "E" else "int"
        enc1 = "enum" if r["after"][0]["bins"]["chrom"][0] == "E" else "int"
        seen[f"{n}x{L}:{kind}"] = f"{enc0}->{enc1}"
        case = {"big": {"contigs": n, "name_length": L, "transition": kind}, "maps_sizes": [len(m) for m in maps]}
        ctx.case(case, nontrivial=True, kind=f"big:{enc0}->{enc1}")
        for b in oracle(c, maps, r):
            ctx.fail(case, b, b.pop("sig", None))
    ctx.extra["big_transitions_observed"] = seen


def run_many_bins(ctx, d, lengths=(600000, 400000, 250000), tag="q"):
    """a path only taken beyond a size threshold: an enum-encoded collection with more than 1,000,000 bins (bin size 1),
    a chain of two renamings touching the middle and the first chromosome; the complete chrom column is compared
    vectorised (stored codes and decoded labels), bins().fetch by each new name by row count and first/last rows,
    pixels(join=True) labels, extents - on the same object and after reopening"""
    import time
    import cooler
    t0 = time.time()
    names = ["chrA", "chrB", "chrC"][:len(lengths)]
    codes = np.repeat(np.arange(len(lengths), dtype=np.int32), lengths)
    starts = np.concatenate([np.arange(L, dtype=np.int32) for L in lengths])
    nb = int(codes.size)
    bins = pd.DataFrame({"chrom": pd.Categorical.from_codes(codes, names), "start": starts, "end": starts + 1})
    offs = np.concatenate([[0], np.cumsum(lengths)])
    last = int(offs[len(lengths) - 1])
    cand = [(0, 1), (5, int(offs[1]) + 1), (int(offs[1]), int(offs[1]) + 1), (int(offs[1]), last), (last, nb - 1), (nb - 2, nb - 1)]
    pix = sorted({(min(a, b, nb - 1), min(max(a, b), nb - 1)): 2 + i for i, (a, b) in enumerate(cand)}.items())
    fn = os.path.join(d, f"manybins_{tag}.cool")
    cooler.create_cooler(fn, bins, pd.DataFrame({"bin1_id": [k[0] for k, _ in pix], "bin2_id": [k[1] for k, _ in pix],
                                                 "count": [v for _, v in pix]}))
    maps = [{names[1]: "middle_renamed"}, {"middle_renamed": "m2", names[0]: "first_too"}]
    cur = list(names)
    clr = cooler.Cooler(fn)
    case = {"many_bins": list(lengths), "maps": maps}
    bad = []
    for m in maps:
        o, _ = G.guarded(cooler.rename_chroms, clr, dict(m), limit=120)
        if o != "Ok":
            bad.append({"what": "rename_chroms raised", "outcome": o})
            break
        cur = apply_map(cur, m)

    def check(c, tagc):
        with h5py.File(fn, "r") as h:
            ds = h["bins/chrom"]
            raw = ds[:]
            en = h5py.check_enum_dtype(ds.dtype)
            hdr = [k for k, _ in sorted(en.items(), key=lambda kv: kv[1])] if en else None
            stored = [x.decode() for x in h["chroms/name"][:]]
        if not np.array_equal(raw, codes):
            w = np.nonzero(raw != codes)[0]
            bad.append({"what": f"stored bin chromosome codes differ ({tagc})", "n_wrong": int(w.size), "first_wrong_bin": int(w[0]),
                        "got": int(raw[w[0]]), "expected": int(codes[w[0]])})
        if hdr is not None and hdr != cur:
            bad.append({"what": f"enum header ({tagc})", "got": hdr, "expected": cur})
        if stored != cur or [str(x) for x in c.chromnames] != cur:
            bad.append({"what": f"chromosome names ({tagc})", "got": [stored, [str(x) for x in c.chromnames]], "expected": cur})
        col = c.bins()["chrom"][:]
        lab_codes = col.cat.codes.values if hasattr(col, "cat") else None
        if lab_codes is None or [str(x) for x in col.cat.categories] != cur or not np.array_equal(lab_codes, codes):
            bad.append({"what": f"labels of the complete bin table ({tagc})",
                        "n_wrong": int((lab_codes != codes).sum()) if lab_codes is not None else "not categorical"})
        for i, nm in enumerate(cur):
            lo, hi = int(offs[i]), int(offs[i + 1])
            ext = G.guarded(c.extent, nm)
            if ext[0] != "Ok" or [int(x) for x in ext[1]] != [lo, hi]:
                bad.append({"what": f"extent by new name ({tagc})", "name": nm, "got": str(ext)[:80]})
            o, t = G.guarded(lambda: c.bins().fetch(nm))
            ok = o == "Ok" and len(t) == hi - lo and [str(t["chrom"].iloc[0]), int(t["start"].iloc[0])] == [nm, 0] and \
                [str(t["chrom"].iloc[-1]), int(t["end"].iloc[-1])] == [nm, hi - lo] and (t["chrom"].astype(str) == nm).all()
            if not ok:
                bad.append({"what": f"bins().fetch by new name ({tagc})", "name": nm, "got": o if o != "Ok" else [len(t), str(t["chrom"].iloc[0])]})
        o, j = G.guarded(lambda: c.pixels(join=True)[:])
        exp_join = [[cur[int(codes[k[0]])], cur[int(codes[k[1]])]] for k, _ in pix]
        if o != "Ok" or [[str(a), str(b_)] for a, b_ in zip(j["chrom1"], j["chrom2"])] != exp_join:
            bad.append({"what": f"chromosome labels of pixels(join=True) ({tagc})", "expected": exp_join})
    if not bad:
        check(clr, "same object")
        check(cooler.Cooler(fn), "reopened")
    os.remove(fn)
    ctx.case(case, nontrivial=True, kind="many-bins")
    for b in bad:
        ctx.fail(case, b, None)
    ctx.extra.setdefault("many_bins_seconds", []).append(round(time.time() - t0, 1))


def history_pass(ctx, d, rng, tag):
    """state carried between calls in ONE process: several collections as groups of ONE file renamed alternately,
    through long-lived and fresh Cooler objects; the same path overwritten with other chromosome names / another
    number of bins, deleted and re-created; one rename-map dict reused for two calls.  After every step every live
    collection is judged for what is stored NOW (own bookkeeping: the maps applied in sequence to the FILE's names)."""
    import cooler
    fn = os.path.join(d, f"hist{tag}.cool")
    live = {}                                   # group path -> (cooler case, current names)

    def make(grp, c, mode):
        bins = pd.DataFrame(c["bins"], columns=["chrom", "start", "end"])
        px = pd.DataFrame({"bin1_id": np.array([p[0] for p in c["pixels"]], dtype=np.int64),
                           "bin2_id": np.array([p[1] for p in c["pixels"]], dtype=np.int64),
                           "count": np.array([p[2] for p in c["pixels"]], dtype=np.int64)})
        cooler.create_cooler(fn + "::" + grp, bins, px, mode=mode)
        if mode == "w":
            live.clear()
        live[grp] = (c, list(c["names"]))

    def rename(obj, grp, m):
        o, _ = G.guarded(cooler.rename_chroms, obj, m)
        c, names = live[grp]
        if o != "Ok":
            ctx.fail({"history": step[0], "map": m}, {"what": "rename_chroms raised", "outcome": o, "group": grp}, None)
            return
        live[grp] = (c, apply_map(names, m))

    def check(extra_objs=()):
        for grp, (c, names) in live.items():
            new_of = dict(zip(c["names"], names))
            lab = [new_of[b[0]] for b in c["bins"]]
            exp = {"chromnames": names, "chromsizes": [[n, L] for n, L in zip(names, c["lengths"])], "labels": lab,
                   "join": [[lab[i], lab[j]] for i, j, _ in c["pixels"]],
                   "extent": {}}
            for old, new in zip(c["names"], names):
                rows = [i for i, b in enumerate(c["bins"]) if b[0] == old]
                exp["extent"][new] = [rows[0], rows[-1] + 1]
            objs = [("fresh", G.guarded(cooler.Cooler, fn + "::" + grp))] + [(t, ("Ok", o)) for t, g2, o in extra_objs if g2 == grp]
            for t, (oc, obj) in objs:
                if oc != "Ok":
                    ctx.fail({"history": step[0]}, {"what": "collection cannot be opened", "group": grp, "outcome": oc}, None)
                    continue
                ob = observe(obj, names)
                got = {k_: ob[k_] for k_ in ("chromnames", "chromsizes", "labels", "join", "extent")}
                if got != exp:
                    diff = [k_ for k_ in exp if got[k_] != exp[k_]]
                    ctx.fail({"history": step[0], "group": grp, "object": t},
                             {"what": "collection does not read as what is stored now", "differs": diff,
                              "got": {k_: got[k_] for k_ in diff[:2]}, "expected": {k_: exp[k_] for k_ in diff[:2]}}, None)
            with h5py.File(fn, "r") as h:
                stored = [x.decode() for x in h[grp]["chroms/name"][:]]
            if stored != names:
                ctx.fail({"history": step[0], "group": grp}, {"what": "chroms/name on disk", "got": stored, "expected": names}, None)

    def fresh_names(k, names):
        return {old: f"{k}{i}_{rng.randrange(100)}" for i, old in enumerate(names) if rng.random() < 0.7} or {names[0]: f"{k}x"}

    step = ["start"]
    X, Y, Z = gen_cooler(rng), gen_cooler(rng), gen_cooler(rng)
    while len(Y["names"]) == len(X["names"]):
        Y = gen_cooler(rng)
    while len(Z["bins"]) == len(X["bins"]) or set(Z["names"]) == set(X["names"]):
        Z = gen_cooler(rng)
    for c_ in (X, Y, Z):
        c_["enc"] = "enum"
    if G.guarded(cooler.Cooler, fn + "::/g1")[0] == "Ok":
        ctx.fail({"history": "before the file exists"}, {"what": "a Cooler opened on a path that does not exist"}, None)
    step[0] = "two groups created"
    make("/g1", X, "w")
    make("/g2", Y, "a")
    hs = []
    # one long-lived object wraps a live h5py Group of the multi-collection file, the other is opened by URI
    cx, cy = open_cooler(fn, "/g1", "group_rw", hs), cooler.Cooler(fn + "::/g2")
    check()
    step[0] = "rename g1"
    rename(cx, "/g1", fresh_names("a", live["/g1"][1]))
    check([("long-lived", "/g1", cx)])
    step[0] = "rename g2"
    rename(cy, "/g2", fresh_names("b", live["/g2"][1]))
    check([("long-lived", "/g2", cy)])
    step[0] = "rename g1 again, through a fresh object"
    rename(cooler.Cooler(fn + "::/g1"), "/g1", fresh_names("c", live["/g1"][1]))
    check()
    step[0] = "one map dict reused for both groups"
    m = {live["/g1"][1][0]: "shared_one", live["/g2"][1][-1]: "shared_two"}
    keep = dict(m)
    rename(cx, "/g1", m)
    rename(cy, "/g2", m)
    if m != keep:
        ctx.fail({"history": step[0]}, {"what": "rename_chroms modified the map it was given", "got": m, "expected": keep}, None)
    check([("long-lived", "/g1", cx), ("long-lived", "/g2", cy)])
    for h_ in hs:
        h_.close()
    step[0] = "file overwritten: other chromosome names, other number of bins"
    make("/g1", Z, "w")
    if G.guarded(cooler.Cooler, fn + "::/g2")[0] == "Ok":
        ctx.fail({"history": step[0]}, {"what": "a group of the replaced file can still be opened"}, None)
    check()
    step[0] = "rename after the overwrite"
    rename(cooler.Cooler(fn + "::/g1"), "/g1", fresh_names("d", live["/g1"][1]))
    check()
    step[0] = "deleted and re-created at the root"
    os.remove(fn)
    if G.guarded(cooler.Cooler, fn)[0] == "Ok":
        ctx.fail({"history": step[0]}, {"what": "a Cooler opened on a deleted file"}, None)
    make("/", X, "w")
    rename(cooler.Cooler(fn), "/", fresh_names("e", live["/"][1]))
    check()
    os.remove(fn)
    ctx.case({"history": tag, "groups": [X["names"], Y["names"], Z["names"]]}, nontrivial=True, kind="history")


def run(ctx):
    import warnings
    warnings.filterwarnings("ignore")
    thorough = ctx.tier == "thorough"
    rng = ctx.rng
    d = str(ctx.tmp / "coolers")
    os.makedirs(d, exist_ok=True)
    cases = [(c, m, "corpus") for c, m in corpus()]
    for form in STORE_FORMS:                       # every store form on the corpus cooler, root and nested
        for c0, m0 in corpus()[2:4] + corpus()[8:10]:
            cases.append((dict(c0, store=form), m0, "corpus-store"))
    for c, m, objs in stale_corpus():
        cases.append((dict(c, objs=objs), m, "corpus-stale"))
    for _ in range(1200 if thorough else 215):
        c = gen_cooler(rng)
        maps = gen_maps(rng, c["names"])
        c["store"] = rng.choice(["path", "uri", "uri_noslash", "root_kw", "file_rw", "group_rw", "file_rw", "group_rw", "file_ro", "group_ro"])
        kind = "random"
        if len(maps) >= 2 and rng.random() < 0.6:
            # the renamings are issued through different Cooler objects opened before the first one
            nobj = rng.randint(2, len(maps))
            c["objs"] = [rng.randrange(nobj) for _ in maps]
            if len(set(c["objs"])) == 1:
                c["objs"][-1] = (c["objs"][0] + 1) % nobj
            kind = "random-stale"
        cases.append((c, maps, kind))
    results = []
    for k, (c, maps, kind) in enumerate(cases):
        results.append(run_impl(d, k, c, maps, c.get("objs")))
        try:
            os.remove(os.path.join(d, f"c{k}.cool"))
        except OSError:
            pass
    exprs = [model_expr(c, maps, r["before"]) for (c, maps, _), r in zip(cases, results)]
    vals = C.coq_eval(IMPORTS, exprs, shard=40, jobs=4, timeout=900, tmpdir=ctx.tmp / "model")
    for (c, maps, kind), r, v in zip(cases, results, vals):
        case = {"cooler": {k_: c.get(k_) for k_ in ("names", "lengths", "bins", "pixels", "root", "enc", "store")}, "maps": maps, "objs": c.get("objs")}
        changed = r["names_now"] != c["names"]
        ctx.case(case, nontrivial=changed, kind=f"{kind}:{c['enc']}:{len(maps)}:{c.get('store', 'uri')}")
        for b in oracle(c, maps, r):
            ctx.fail(case, b, b.pop("sig", None))
        if v is None:
            ctx.disagree("model could not rename", case, r["outcome"], None)
            continue
        names, sizes, labels, extents, dump = v[1]
        if c.get("store") in RO_FORMS and any(maps):
            continue                                   # refused: nothing to compare with the renamed model
        if r["outcome"] != "Ok":
            ctx.disagree("outcome", case, r["outcome"], "Ok")
            continue
        o = r["reopened"]
        ctx.compare("chromnames", case, o["chromnames"], list(names))
        ctx.compare("chromsizes", case, o["chromsizes"], [[n, L] for n, L in sizes])
        ctx.compare("bin labels", case, o["labels"], list(labels))
        ctx.compare("extent by new name", case, [o["extent"][nm] for nm in r["names_now"]],
                    [list(e[1]) if e is not None else None for e in extents])
        ctx.compare("raw tree after renaming", case, r["dump"], G.canon_dump(G.model_dump(dump)))
        ctx.compare("same object vs reopened", case, r["same"], r["reopened"])
    run_big(ctx, d, len(cases))
    run_many_bins(ctx, d)
    run_many_bins(ctx, d, (999999, 2), "t2")                       # one bin beyond 1,000,000
    run_many_bins(ctx, d, (500000, 500000), "t3")                  # exactly 1,000,000
    if thorough:
        run_many_bins(ctx, d, (1000000, 1, 999999), "t1")          # block edges at chromosome boundaries, two full blocks
        run_many_bins(ctx, d, (1500000, 700000, 900000), "t4")     # four blocks
    for t in range(8 if thorough else 3):
        history_pass(ctx, d, rng, t)
    if thorough:
        big_enum_overflow(ctx)


def big_enum_overflow(ctx):
    """the integer encoding reached through the API: so many scaffolds that the enum header does not fit"""
    import cooler
    n = 30000
    names = [f"scaffold_with_a_long_name_{i:06d}" for i in range(n)]
    bins = pd.DataFrame({"chrom": names, "start": 0, "end": 5})
    fn = str(ctx.tmp / "big.cool")
    cooler.create_cooler(fn, bins, pd.DataFrame({"bin1_id": [0, 1], "bin2_id": [1, 29999], "count": [2, 3]}))
    with h5py.File(fn, "r") as h:
        is_int = h5py.check_enum_dtype(h["bins/chrom"].dtype) is None
    clr = cooler.Cooler(fn)
    cooler.rename_chroms(clr, {names[0]: "first", names[-1]: "last"})
    case = {"big": n, "integer_encoding_reached": bool(is_int)}
    ctx.case(case, kind="big:int" if is_int else "big:enum")
    ok = (clr.chromnames[0] == "first" and clr.chromnames[-1] == "last" and clr.chromnames[1] == names[1]
          and clr.extent("last") == (n - 1, n) and str(clr.bins()[n - 1:n]["chrom"].iloc[0]) == "last"
          and cooler.Cooler(fn).chromnames[0] == "first")
    if not ok:
        ctx.fail(case, {"what": "renaming with the integer encoding reached through the API"}, None)
    ctx.extra["integer_encoding_reached_through_api"] = bool(is_int)


def replay(ctx, case):
    import warnings
    warnings.filterwarnings("ignore")
    if "many_bins" in case:
        d = str(ctx.tmp / "replay")
        os.makedirs(d, exist_ok=True)
        n0 = len(ctx.failures)
        run_many_bins(ctx, d, tuple(case["many_bins"]), "r")
        for f in ctx.failures[n0:]:
            print("  ", str(f[1])[:300])
        return len(ctx.failures) == n0
    if "history" in case:
        import random
        d = str(ctx.tmp / "replay")
        os.makedirs(d, exist_ok=True)
        n0 = len(ctx.failures)
        history_pass(ctx, d, random.Random(1), "r")
        for f in ctx.failures[n0:]:
            print("  ", str(f[1])[:300])
        return len(ctx.failures) == n0
    if "big" in case:
        import random
        b = case["big"]
        if not isinstance(b, dict):
            return True
        c, maps = big_case(b["contigs"], b["name_length"], b["transition"], random.Random(0))
        d = str(ctx.tmp / "replay")
        os.makedirs(d, exist_ok=True)
        bad = oracle(c, maps, run_impl(d, 0, c, maps))
        for x in bad:
            print("  ", str(x)[:300])
        return not [x for x in bad if x.get("sig") is None]
    c = dict(case["cooler"])
    c["bins"] = [tuple(b) for b in c["bins"]]
    c["pixels"] = [tuple(p) for p in c["pixels"]]
    d = str(ctx.tmp / "replay")
    os.makedirs(d, exist_ok=True)
    r = run_impl(d, 0, c, case["maps"], case.get("objs"))
    bad = oracle(c, case["maps"], r)
    for b in bad:
        print("  ", b)
    return not bad
