(** C03  A 2D range query equals the same slice of the full matrix.
    Only statements; proofs are in Proofs/QueryProofs.v, SpansProofs.v, QueryMain.v.
    [epx] = the stored pixel table with its row numbers, [off] = indexes/bin1_offset,
    [ValidCSR n epx off] = the table is the concatenation of n rows (row i = the records with bin1 = i)
    and off is the prefix-sum index of the row lengths. *)
From Cooler Require Import Model.Query Proofs.PixelsProofs Proofs.QueryProofs Proofs.SpansProofs Proofs.QueryMain.
From Cooler Require Import Gen.Translated Proofs.GenBridge.
From Cooler Require Model.Index Proofs.IndexProofs Proofs.EndToEnd.
From Coq Require Import Sorted Permutation.

(** pixel output (as_pixels / direct engine): exactly the stored records inside the window, in storage order,
    with their table positions, for every read chunk size *)
Theorem C03_direct_query_spec : forall n epx off cs i0 i1 j0 j1,
  ValidCSR n epx off -> 1 <= cs -> 0 <= i0 -> i0 <= i1 -> i1 <= n ->
  direct_query epx off (get_spans off cs) (i0, i1, j0, j1) =
  filter (fun r => in_window (i0, i1, j0, j1) (snd r)) epx.
Proof. exact direct_query_get_spans. Qed.
Print Assumptions C03_direct_query_spec.

(** symmetric-upper mode: the fill-lower engine never hits its "shouldn't happen" branch and returns a permutation
    of the symmetric completion restricted to the window, wherever the window lies relative to the diagonal *)
Theorem C03_fill_lower_perm : forall n epx off cs i0 i1 j0 j1,
  ValidCSR n epx off -> Upper epx -> 1 <= cs ->
  0 <= i0 -> i0 <= i1 -> i1 <= n -> 0 <= j0 -> j0 <= j1 -> j1 <= n ->
  exists out, fill_lower_query epx off (get_spans off cs) (i0, i1, j0, j1) = Some out /\
    Permutation (map snd out) (filter (in_window (i0, i1, j0, j1)) (completion (map snd epx))).
Proof. exact fill_lower_get_spans. Qed.
Print Assumptions C03_fill_lower_perm.

(** the same for every cut sequence np.linspace may return (first = lo, last = hi, all within [lo, hi]):
    no floating-point fact about the interior cut points is used *)
Theorem C03_fill_lower_perm_any_cuts : forall n epx off cutsf i0 i1 j0 j1,
  ValidCSR n epx off ->
  (forall seq, StronglySorted Z.le seq -> seq <> [] -> AdmissibleCuts seq (cutsf seq)) ->
  Upper epx -> 0 <= i0 -> i0 <= i1 -> i1 <= n -> 0 <= j0 -> j0 <= j1 -> j1 <= n ->
  exists out, fill_lower_query epx off (spans_with cutsf off) (i0, i1, j0, j1) = Some out /\
    Permutation (map snd out) (filter (in_window (i0, i1, j0, j1)) (completion (map snd epx))).
Proof. intros n epx off cutsf i0 i1 j0 j1 HV Hc. exact (fill_lower_spec n epx off HV cutsf Hc i0 i1 j0 j1). Qed.
Print Assumptions C03_fill_lower_perm_any_cuts.

Theorem C03_direct_query_any_cuts : forall n epx off cutsf i0 i1 j0 j1,
  ValidCSR n epx off ->
  (forall seq, StronglySorted Z.le seq -> seq <> [] -> AdmissibleCuts seq (cutsf seq)) ->
  0 <= i0 -> i0 <= i1 -> i1 <= n ->
  direct_query epx off (spans_with cutsf off) (i0, i1, j0, j1) = filter (fun r => in_window (i0, i1, j0, j1) (snd r)) epx.
Proof. intros n epx off cutsf i0 i1 j0 j1 HV Hc. exact (direct_query_spec n epx off HV cutsf Hc i0 i1 j0 j1). Qed.
Print Assumptions C03_direct_query_any_cuts.

(** membership: an entry is emitted iff it is a stored pixel or the mirror image of an off-diagonal stored pixel, inside the window *)
Theorem C03_fill_lower_in : forall n epx off cutsf i0 i1 j0 j1,
  ValidCSR n epx off ->
  (forall seq, StronglySorted Z.le seq -> seq <> [] -> AdmissibleCuts seq (cutsf seq)) ->
  Upper epx -> 0 <= i0 -> i0 <= i1 -> i1 <= n -> 0 <= j0 -> j0 <= j1 -> j1 <= n ->
  exists out, fill_lower_query epx off (spans_with cutsf off) (i0, i1, j0, j1) = Some out /\
    forall x, In x (map snd out) <->
      (In x (map snd epx) \/ (row x <> col x /\ In (flip x) (map snd epx))) /\ in_window (i0, i1, j0, j1) x = true.
Proof. intros n epx off cutsf i0 i1 j0 j1 HV Hc. exact (fill_lower_in n epx off HV cutsf Hc i0 i1 j0 j1). Qed.
Print Assumptions C03_fill_lower_in.

(** no element is emitted twice (so the dense conversion, which adds up equal coordinates, doubles nothing) *)
Theorem C03_fill_lower_nodup : forall n epx off cutsf i0 i1 j0 j1,
  ValidCSR n epx off ->
  (forall seq, StronglySorted Z.le seq -> seq <> [] -> AdmissibleCuts seq (cutsf seq)) ->
  Upper epx -> NoDup (keys (map snd epx)) -> 0 <= i0 -> i0 <= i1 -> i1 <= n -> 0 <= j0 -> j0 <= j1 -> j1 <= n ->
  exists out, fill_lower_query epx off (spans_with cutsf off) (i0, i1, j0, j1) = Some out /\ NoDup (keys (map snd out)).
Proof. intros n epx off cutsf i0 i1 j0 j1 HV Hc. exact (fill_lower_nodup n epx off HV cutsf Hc i0 i1 j0 j1). Qed.
Print Assumptions C03_fill_lower_nodup.

(** dense output = the sub-block of the full symmetric matrix *)
Theorem C03_dense_eq_slice : forall n epx off cutsf i0 i1 j0 j1,
  ValidCSR n epx off ->
  (forall seq, StronglySorted Z.le seq -> seq <> [] -> AdmissibleCuts seq (cutsf seq)) ->
  Upper epx -> 0 <= i0 -> i0 <= i1 -> i1 <= n -> 0 <= j0 -> j0 <= j1 -> j1 <= n ->
  exists out, fill_lower_query epx off (spans_with cutsf off) (i0, i1, j0, j1) = Some out /\
    dense_of out (i0, i1, j0, j1) =
    map (fun i => map (fun j => symm (map snd epx) i j) (zrange j0 (Z.to_nat (j1 - j0)))) (zrange i0 (Z.to_nat (i1 - i0))).
Proof. intros n epx off cutsf i0 i1 j0 j1 HV Hc. exact (dense_eq_slice n epx off HV cutsf Hc i0 i1 j0 j1). Qed.
Print Assumptions C03_dense_eq_slice.

(** square mode (no fill): dense output = the sub-block of the stored matrix itself *)
Theorem C03_dense_square : forall n epx off cutsf i0 i1 j0 j1,
  ValidCSR n epx off ->
  (forall seq, StronglySorted Z.le seq -> seq <> [] -> AdmissibleCuts seq (cutsf seq)) ->
  0 <= i0 -> i0 <= i1 -> i1 <= n ->
  dense_of (direct_query epx off (spans_with cutsf off) (i0, i1, j0, j1)) (i0, i1, j0, j1) =
  map (fun i => map (fun j => look (map snd epx) (i, j)) (zrange j0 (Z.to_nat (j1 - j0)))) (zrange i0 (Z.to_nat (i1 - i0))).
Proof. intros n epx off cutsf i0 i1 j0 j1 HV Hc. exact (dense_direct n epx off HV cutsf Hc i0 i1 j0 j1). Qed.
Print Assumptions C03_dense_square.

(** the result does not depend on the read chunk size *)
Theorem C03_chunksize_independent_pixels : forall n epx off c1 c2 i0 i1 j0 j1,
  ValidCSR n epx off -> 1 <= c1 -> 1 <= c2 -> 0 <= i0 -> i0 <= i1 -> i1 <= n ->
  direct_query epx off (get_spans off c1) (i0, i1, j0, j1) = direct_query epx off (get_spans off c2) (i0, i1, j0, j1).
Proof. exact direct_chunksize_independent. Qed.
Print Assumptions C03_chunksize_independent_pixels.

Theorem C03_chunksize_independent_matrix : forall n epx off c1 c2 i0 i1 j0 j1,
  ValidCSR n epx off -> Upper epx -> 1 <= c1 -> 1 <= c2 ->
  0 <= i0 -> i0 <= i1 -> i1 <= n -> 0 <= j0 -> j0 <= j1 -> j1 <= n ->
  exists o1 o2, fill_lower_query epx off (get_spans off c1) (i0, i1, j0, j1) = Some o1 /\
                fill_lower_query epx off (get_spans off c2) (i0, i1, j0, j1) = Some o2 /\
                Permutation (map snd o1) (map snd o2) /\
                dense_of o1 (i0, i1, j0, j1) = dense_of o2 (i0, i1, j0, j1).
Proof. exact fill_lower_chunksize_independent. Qed.
Print Assumptions C03_chunksize_independent_matrix.

(** get_spans itself: consecutive spans from the first row of the box; only empty rows stay uncovered *)
Theorem C03_spans_cover : forall n (rows : list (list ipixel)) cs x0 x1 y0 y1,
  zlen rows = n -> 1 <= cs -> 0 <= x0 -> x0 <= x1 -> x1 <= n ->
  AdmissibleSpans rows x0 x1 (get_spans (psums 0 (map zlen rows)) cs (x0, x1, y0, y1)) \/
  (y1 <= y0 /\ get_spans (psums 0 (map zlen rows)) cs (x0, x1, y0, y1) = []).
Proof. intros n rows cs x0 x1 y0 y1 Hn Hcs. exact (get_spans_admissible n rows cs Hn Hcs x0 x1 y0 y1). Qed.
Print Assumptions C03_spans_cover.

(** negative and open-ended bounds are resolved as for arrays; a scalar selects the one-element range *)
Theorem C03_process_slice_spec : forall start stop nmax, 0 <= nmax ->
  (forall a, start = Some a -> - nmax <= a <= nmax) -> (forall b, stop = Some b -> - nmax <= b <= nmax) ->
  let '(i0, i1) := process_slice start stop nmax in
  0 <= i0 <= nmax /\ 0 <= i1 <= nmax /\
  i0 = match start with None => 0 | Some a => a mod nmax + (if a =? nmax then nmax else 0) end /\
  i1 = match stop with None => nmax | Some b => b mod nmax + (if b =? nmax then nmax else 0) end.
Proof. exact process_slice_spec. Qed.
Print Assumptions C03_process_slice_spec.

Theorem C03_process_scalar_spec : forall s nmax, 0 < nmax ->
  (- nmax <= s < nmax -> process_scalar s nmax = Some (s mod nmax, s mod nmax + 1)) /\
  (nmax <= s -> process_scalar s nmax = None).
Proof. exact process_scalar_spec. Qed.
Print Assumptions C03_process_scalar_spec.

(** the hypothesis ValidCSR is decided by the executable check the correspondence run evaluates on the raw file columns *)
Theorem C03_valid_check_sound : forall n epx off, valid_csr_b n epx off = true -> ValidCSR n epx off.
Proof. exact valid_csr_b_sound. Qed.
Print Assumptions C03_valid_check_sound.

(** integration with C02: every stored collection that satisfies the published schema (the ValidCSR of property C02,
    which `create`, merge, coarsen, ... establish) meets the hypotheses above, so on every such collection the pixel query
    returns exactly the stored records in the window and the matrix query the sub-block of the symmetric matrix,
    each coordinate once, for every window and read chunk size *)
Theorem C03_on_every_schema_valid_collection : forall (c : Index.cooler) cs i0 i1 j0 j1,
  IndexProofs.ValidCSR c -> 1 <= cs ->
  0 <= i0 -> i0 <= i1 -> i1 <= Index.nbins c -> 0 <= j0 -> j0 <= j1 -> j1 <= Index.nbins c ->
  let epx := epx_of (Index.pixels_of c) in
  let off := Index.bin1_offset c in
  direct_query epx off (get_spans off cs) (i0, i1, j0, j1) = filter (fun r => in_window (i0, i1, j0, j1) (snd r)) epx /\
  (Index.symmetric_upper c = true ->
   exists out, fill_lower_query epx off (get_spans off cs) (i0, i1, j0, j1) = Some out /\
     NoDup (keys (map snd out)) /\
     dense_of out (i0, i1, j0, j1) =
     map (fun i => map (fun j => symm (Index.pixels_of c) i j) (zrange j0 (Z.to_nat (j1 - j0)))) (zrange i0 (Z.to_nat (i1 - i0)))).
Proof. exact EndToEnd.stored_cooler_range_queries. Qed.
Print Assumptions C03_on_every_schema_valid_collection.

(** tie by translation: the decision logic regenerated from /repo's source on this run (coq/Gen/Translated.v,
    written by tools/py2v.py) is the model the theorems above are about *)
Theorem C03_source_plan_is_model : forall bb,
  option_map (fun p => combine (fst p) (snd p)) (Gen.fill_lower_plan bb) = fill_lower_plan bb.
Proof. exact gen_fill_lower_plan. Qed.
Print Assumptions C03_source_plan_is_model.
Theorem C03_source_comes_before_contains_are_model : forall a0 a1 b0 b1 s,
  Gen.comes_before a0 a1 b0 b1 s = comes_before a0 a1 b0 b1 s /\ Gen.contains a0 a1 b0 b1 s = contains a0 a1 b0 b1 s.
Proof. intros. split; [apply gen_comes_before|apply gen_contains]. Qed.
Print Assumptions C03_source_comes_before_contains_are_model.
(** bounds below -n are resolved as for arrays too (clamped to 0; the unclamped code was defect D33), and a scalar
    outside [-n, n) on either side is refused *)
Theorem C03_process_slice_array_semantics : forall start stop nmax, 0 <= nmax ->
  (forall a, start = Some a -> a <= nmax) -> (forall b, stop = Some b -> b <= nmax) ->
  process_slice start stop nmax =
  (match start with None => 0 | Some a => array_bound a nmax end, match stop with None => nmax | Some b => array_bound b nmax end).
Proof. exact process_slice_array_semantics. Qed.
Print Assumptions C03_process_slice_array_semantics.
Theorem C03_process_scalar_refuses : forall s nmax, 0 <= nmax -> (s < - nmax \/ nmax <= s) -> process_scalar s nmax = None.
Proof. exact process_scalar_refuses. Qed.
Print Assumptions C03_process_scalar_refuses.

Theorem C03_source_process_slice_is_model : forall start stop s nmax,
  Gen.process_slice start stop nmax = process_slice start stop nmax /\ Gen.process_scalar s nmax = process_scalar s nmax.
Proof. intros. split; [apply gen_process_slice|apply gen_process_scalar]. Qed.
Print Assumptions C03_source_process_slice_is_model.
Theorem C03_source_pins : Gen.transpose_swaps_bin_ids = true /\ Gen.direct_tasks_one_per_span_no_reflect = true /\ Gen.reader_source_pins = true.
Proof. exact gen_pins. Qed.
Print Assumptions C03_source_pins.

(** non-vacuity: a concrete 4-bin table with an empty row meets the hypotheses, and the engines give the expected answers *)
Definition ex_px : list pixel := [((0,0),5); ((0,2),7); ((2,2),1); ((2,3),4); ((3,3),9)].
Example ex_C03_valid :
  valid_csr_b 4 (epx_of ex_px) (offsets_of 4 ex_px) = true /\ upper_b ex_px = true /\ offsets_of 4 ex_px = [0;2;2;4;5].
Proof. vm_compute. repeat split. Qed.
Example ex_C03_fill_lower_window :
  option_map (fun o => dense_of o (2,4,0,3)) (fill_lower_query (epx_of ex_px) (offsets_of 4 ex_px) (get_spans (offsets_of 4 ex_px) 2) (2,4,0,3))
  = Some [[7;0;1]; [0;0;4]].
Proof. vm_compute. reflexivity. Qed.
Example ex_C03_direct_window :
  direct_query (epx_of ex_px) (offsets_of 4 ex_px) (get_spans (offsets_of 4 ex_px) 1) (0,3,2,4) = [(1,((0,2),7)); (2,((2,2),1)); (3,((2,3),4))].
Proof. vm_compute. reflexivity. Qed.
