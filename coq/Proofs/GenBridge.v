(** Bridge between the text regenerated from /repo's source by tools/py2v.py (coq/Gen/Translated.v)
    and the hand-written model: each lemma is re-checked against the regenerated text on every run.
    A change of the translated source functions makes these lemmas (or the names they mention) stop checking. *)
From Cooler Require Import Model.Query Gen.Translated.

Lemma gen_comes_before : forall a0 a1 b0 b1 s, Gen.comes_before a0 a1 b0 b1 s = comes_before a0 a1 b0 b1 s.
Proof. reflexivity. Qed.
Lemma gen_contains : forall a0 a1 b0 b1 s, Gen.contains a0 a1 b0 b1 s = contains a0 a1 b0 b1 s.
Proof. reflexivity. Qed.

(** the task plan of FillLowerRangeQuery2D.__init__: (fetchers, _bboxes) zipped = the model's plan *)
Lemma gen_fill_lower_plan : forall bb,
  option_map (fun p => combine (fst p) (snd p)) (Gen.fill_lower_plan bb) = fill_lower_plan bb.
Proof.
  intros [[[i0 i1] j0] j1].
  cbv [Gen.fill_lower_plan fill_lower_plan Gen.comes_before Gen.contains comes_before contains].
  destruct (i1 >? j1); cbv iota beta zeta;
  repeat match goal with |- context [if ?b then _ else _] => destruct b; cbn [orb andb negb] end; reflexivity.
Qed.

Lemma gen_process_slice : forall start stop nmax, Gen.process_slice start stop nmax = process_slice start stop nmax.
Proof. intros [a|] [b|] nmax; reflexivity. Qed.
Lemma gen_process_scalar : forall s nmax, Gen.process_scalar s nmax = process_scalar s nmax.
Proof. intros s nmax. unfold Gen.process_scalar, process_scalar. destruct (s <? 0); reflexivity. Qed.

(** source pins (statement-level facts the hand model mirrors): present iff the translator found the pinned text *)
Lemma gen_pins : Gen.transpose_swaps_bin_ids = true /\ Gen.direct_tasks_one_per_span_no_reflect = true /\ Gen.reader_source_pins = true.
Proof. repeat split. Qed.
