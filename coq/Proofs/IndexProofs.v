(** C02 — proofs about the run-length encoder, the CSR index builders and the
    structural validity of a stored collection (model: Model/Index.v). *)
From Cooler Require Import Model.Index Proofs.PixelsProofs.
From Coq Require Import Sorted ZifyBool.

Local Open Scope Z_scope.

(* ------------------------------------------------------------------ helpers *)

Lemma zlen_cons {A} (x : A) l : zlen (x :: l) = 1 + zlen l.
Proof. unfold zlen. cbn [length]. lia. Qed.
Lemma zlen_nil {A} : zlen (@nil A) = 0. Proof. reflexivity. Qed.
Lemma zlen_nonneg {A} (l : list A) : 0 <= zlen l. Proof. unfold zlen. lia. Qed.
Lemma zlen_app {A} (l1 l2 : list A) : zlen (l1 ++ l2) = zlen l1 + zlen l2.
Proof. unfold zlen. rewrite app_length. lia. Qed.

(* ------------------------------------------------------------------ rlencode *)

Lemma inner_locs_rle_from r : forall p k, inner_locs p k r = rle_from (Some p) k r.
Proof.
  induction r as [|v t IH]; intros p k; cbn [inner_locs rle_from]; [reflexivity|].
  rewrite IH. unfold differs. destruct (v =? p); reflexivity.
Qed.

Lemma rle_block_rle_from prev i x : rle_block prev i x = rle_from prev i x.
Proof.
  destruct x as [|v t]; cbn [rle_block rle_from]; [reflexivity|].
  now rewrite inner_locs_rle_from.
Qed.

(** the encoder of a concatenation: the second part only needs the last value of the first *)
Lemma rle_from_app x : forall prev off y, x <> [] ->
  rle_from prev off (x ++ y) = rle_from prev off x ++ rle_from (Some (last x 0)) (off + zlen x) y.
Proof.
  induction x as [|v t IH]; intros prev off y Hne; [congruence|].
  destruct t as [|w t'].
  - cbn [app rle_from last]. rewrite app_nil_r. rewrite zlen_cons, zlen_nil.
    replace (off + (1 + 0)) with (off + 1) by lia. reflexivity.
  - change ((v :: w :: t') ++ y) with (v :: ((w :: t') ++ y)).
    cbn [rle_from]. rewrite (IH (Some v) (off + 1) y) by discriminate.
    rewrite <- app_assoc. f_equal. f_equal.
    change (last (v :: w :: t') 0) with (last (w :: t') 0).
    rewrite (zlen_cons v). f_equal. lia.
Qed.

Lemma split_at_spec l : forall c x r, split_at c l = (x, r) ->
  l = x ++ r /\ zlen x <= Z.max c 0 /\ (1 <= c -> r = [] \/ zlen x = c) /\ (1 <= c -> l <> [] -> x <> []).
Proof.
  induction l as [|a t IH]; intros c x r H; cbn [split_at] in H.
  - inversion H; subst. rewrite zlen_nil. repeat split; auto; try lia; try congruence.
  - destruct (c <=? 0) eqn:Ec.
    + inversion H; subst. rewrite zlen_nil. cbn [app]. repeat split; auto; try lia.
    + destruct (split_at (c - 1) t) as [a' b'] eqn:Es. inversion H; subst.
      destruct (IH _ _ _ Es) as (E1 & E2 & E3 & E4).
      rewrite zlen_cons. repeat split.
      * cbn [app]. now f_equal.
      * lia.
      * intros Hc. pose proof (zlen_nonneg a'). destruct (Z.eq_dec c 1) as [->|Hn]; [right; lia|].
        destruct E3 as [E3|E3]; [lia|now left|right; lia].
      * intros _ _. discriminate.
Qed.

Lemma rle_loop_nil f c p i : rle_loop f c p i [] = [].
Proof. destruct f; reflexivity. Qed.

Lemma rle_loop_eq fuel : forall c prev i rest, 1 <= c -> (length rest <= fuel)%nat ->
  rle_loop fuel c prev i rest = rle_from prev i rest.
Proof.
  induction fuel as [|f IH]; intros c prev i rest Hc Hf.
  - destruct rest; [reflexivity|cbn [length] in Hf; lia].
  - destruct rest as [|a t]; [reflexivity|].
    cbn [rle_loop]. destruct (split_at c (a :: t)) as [x r] eqn:Es.
    destruct (split_at_spec _ _ _ _ Es) as (E1 & E2 & E3 & E4).
    assert (Hx : x <> []) by (apply E4; [lia|discriminate]).
    rewrite rle_block_rle_from. rewrite E1, rle_from_app by exact Hx.
    f_equal. destruct (E3 Hc) as [E3'|E3'].
    + subst r. now rewrite rle_loop_nil.
    + rewrite E3'. apply IH; [lia|].
      assert (length (a :: t) = length x + length r)%nat by (rewrite E1; apply app_length).
      destruct x; [congruence|]. cbn [length] in *. lia.
Qed.

(** T1: for every array and every block size c >= 1 the chunked encoder equals the one-shot
    specification: starts, lengths and values *)
Theorem rlencode_c_spec a c : 1 <= c -> rlencode_c a c = rle_spec a.
Proof.
  intros Hc. unfold rlencode_c, rle_spec. f_equal. apply rle_loop_eq; [exact Hc|lia].
Qed.

Theorem rlencode_chunked_eq a c : 1 <= c -> rlencode a (Some c) = rlencode a None.
Proof.
  intros Hc. unfold rlencode. destruct a as [|v t]; [reflexivity|].
  replace (c <=? 0) with false by lia.
  rewrite rlencode_c_spec by exact Hc.
  rewrite rlencode_c_spec; [reflexivity|]. rewrite zlen_cons. pose proof (zlen_nonneg t). lia.
Qed.

Theorem rlencode_spec a c : 1 <= c -> rlencode a (Some c) = Some (rle_spec a) /\ rlencode a None = Some (rle_spec a).
Proof.
  intros Hc. rewrite rlencode_chunked_eq by exact Hc. split; [|]; unfold rlencode;
  (destruct a as [|v t]; [reflexivity|]; rewrite rlencode_c_spec; [reflexivity|];
   rewrite zlen_cons; pose proof (zlen_nonneg t); lia).
Qed.

Lemma runs_of_pairs n sv : runs_of (rle_of_pairs n sv) = sv.
Proof.
  unfold runs_of, rle_of_pairs. induction sv as [|[s v] t IH]; [reflexivity|].
  cbn [map combine fst snd]. now rewrite IH.
Qed.

(* ------------------------------------------------------------------ indexes *)

Lemma fill_from_length arr : forall k lo hi v, length (fill_from k lo hi v arr) = length arr.
Proof. induction arr as [|x r IH]; intros; cbn [fill_from length]; [reflexivity|now rewrite IH]. Qed.

Lemma fill_from_nth arr : forall k lo hi v i, (i < length arr)%nat ->
  nth i (fill_from k lo hi v arr) 0 =
  if (lo <=? k + Z.of_nat i) && (k + Z.of_nat i <? hi) then v else nth i arr 0.
Proof.
  induction arr as [|x r IH]; intros k lo hi v i Hi; cbn [length] in Hi; [lia|].
  cbn [fill_from]. destruct i as [|i'].
  - cbn [nth]. replace (k + Z.of_nat 0) with k by lia. reflexivity.
  - cbn [nth]. rewrite IH by lia. replace (k + 1 + Z.of_nat i') with (k + Z.of_nat (S i')) by lia. reflexivity.
Qed.

Lemma fill_slice_length arr lo hi v : length (fill_slice arr lo hi v) = length arr.
Proof. apply fill_from_length. Qed.
Lemma fill_tail_length arr lo v : length (fill_tail arr lo v) = length arr.
Proof. apply fill_from_length. Qed.

(** slice assignment with non-negative bounds: positions lo <= i < hi receive v *)
Lemma fill_slice_nth arr lo hi v i : 0 <= lo -> 0 <= hi -> (i < length arr)%nat ->
  nth i (fill_slice arr lo hi v) 0 =
  if (lo <=? Z.of_nat i) && (Z.of_nat i <? hi) then v else nth i arr 0.
Proof.
  intros Hlo Hhi Hi. unfold fill_slice. rewrite fill_from_nth by exact Hi.
  unfold norm_idx, zlen. replace (lo <? 0) with false by lia. replace (hi <? 0) with false by lia.
  replace (0 + Z.of_nat i) with (Z.of_nat i) by lia.
  destruct (lo <=? Z.of_nat i) eqn:E1, (Z.of_nat i <? hi) eqn:E2;
  destruct (Z.min lo (Z.of_nat (length arr)) <=? Z.of_nat i) eqn:E3,
           (Z.of_nat i <? Z.min hi (Z.of_nat (length arr))) eqn:E4; cbn [andb]; try reflexivity; lia.
Qed.
Lemma fill_tail_nth arr lo v i : 0 <= lo -> (i < length arr)%nat ->
  nth i (fill_tail arr lo v) 0 = if lo <=? Z.of_nat i then v else nth i arr 0.
Proof.
  intros Hlo Hi. unfold fill_tail. rewrite fill_from_nth by exact Hi.
  unfold norm_idx, zlen. replace (lo <? 0) with false by lia.
  replace (0 + Z.of_nat i) with (Z.of_nat i) by lia.
  destruct (lo <=? Z.of_nat i) eqn:E1;
  destruct (Z.min lo (Z.of_nat (length arr)) <=? Z.of_nat i) eqn:E3,
           (Z.of_nat i <? Z.of_nat (length arr)) eqn:E4; cbn [andb]; try reflexivity; lia.
Qed.

Lemma count_lt_nil b : count_lt [] b = 0. Proof. reflexivity. Qed.
Lemma count_lt_cons x r b : count_lt (x :: r) b = (if x <? b then 1 else 0) + count_lt r b.
Proof. unfold count_lt. cbn [filter]. destruct (x <? b); [rewrite zlen_cons|]; lia. Qed.
Lemma count_lt_bounds a b : 0 <= count_lt a b <= zlen a.
Proof.
  induction a as [|x r IH]; [unfold count_lt, zlen; cbn; lia|].
  rewrite count_lt_cons, zlen_cons. destruct (x <? b); lia.
Qed.
Lemma count_lt_zero a b : Forall (fun x => b <= x) a -> count_lt a b = 0.
Proof.
  induction 1 as [|x r Hx _ IH]; [reflexivity|]. rewrite count_lt_cons, IH.
  replace (x <? b) with false by lia. reflexivity.
Qed.
Lemma count_lt_all a b : Forall (fun x => x < b) a -> count_lt a b = zlen a.
Proof.
  induction 1 as [|x r Hx _ IH]; [reflexivity|]. rewrite count_lt_cons, zlen_cons, IH.
  replace (x <? b) with true by lia. reflexivity.
Qed.
Lemma count_lt_mono a b b' : b <= b' -> count_lt a b <= count_lt a b'.
Proof.
  intros Hb. induction a as [|x r IH]; [rewrite !count_lt_nil; lia|].
  rewrite !count_lt_cons. destruct (x <? b) eqn:E1, (x <? b') eqn:E2; lia.
Qed.

Definition NonDecr (a : list Z) : Prop := StronglySorted Z.le a.

Lemma nondecr_b_spec a : nondecr_b a = true <-> NonDecr a.
Proof.
  unfold NonDecr. induction a as [|x t IH]; cbn [nondecr_b].
  - split; [constructor|reflexivity].
  - destruct t as [|y t'].
    + split; [intros _; constructor; constructor|reflexivity].
    + rewrite andb_true_iff, IH. split.
      * intros [H1 H2]. constructor; [exact H2|]. constructor; [lia|].
        inversion H2 as [|? ? _ Hall]; subst. eapply Forall_impl; [|exact Hall]. cbn. intros; lia.
      * intros H. inversion H as [|? ? H2 Hall]; subst. split; [|exact H2].
        inversion Hall; subst. lia.
Qed.

(** the loop invariant of index_pixels / index_bins.  State (arr, curr) before the runs of
    the remaining suffix s (which starts at absolute position off) are processed:
    the final array keeps arr below curr and holds off + #{x in s | x < b} from curr on. *)
Lemma index_loop_inv s : forall prev off arr curr,
  0 <= curr -> NonDecr s ->
  match prev with
  | None => curr = 0 /\ Forall (fun x => 0 <= x) s
  | Some p => p = curr - 1 /\ Forall (fun x => p <= x) s
  end ->
  let '(arr', curr') := fold_left index_step (rle_from prev off s) (arr, curr) in
  let res := fill_tail arr' curr' (off + zlen s) in
  length res = length arr /\
  forall b, (b < length arr)%nat ->
    nth b res 0 = if Z.of_nat b <? curr then nth b arr 0 else off + count_lt s (Z.of_nat b).
Proof.
  induction s as [|v r IH]; intros prev off arr curr Hcurr Hs Hprev.
  - cbn [rle_from fold_left]. cbv zeta. rewrite fill_tail_length. split; [reflexivity|].
    intros b Hb. rewrite fill_tail_nth by assumption. rewrite zlen_nil, count_lt_nil.
    destruct (curr <=? Z.of_nat b) eqn:E1, (Z.of_nat b <? curr) eqn:E2; try reflexivity; lia.
  - inversion Hs as [|? ? Hs' Hall]; subst.
    cbn [rle_from].
    assert (Hlow : forall lb, Forall (fun x => lb <= x) (v :: r) -> lb <= v /\ Forall (fun x => lb <= x) r)
      by (intros lb H; inversion H; subst; split; assumption).
    destruct (differs prev v) eqn:Ed.
    + (* a new run (off, v) starts here; v >= curr *)
      assert (Hv : curr <= v).
      { destruct prev as [p|]; cbn [differs] in Ed.
        - destruct Hprev as [-> Hp]. apply Hlow in Hp. destruct Hp as [Hp _]. lia.
        - destruct Hprev as [-> Hp]. apply Hlow in Hp. tauto. }
      cbn [app fold_left index_step].
      specialize (IH (Some v) (off + 1) (fill_slice arr curr (v + 1) off) (v + 1)).
      destruct (fold_left index_step (rle_from (Some v) (off + 1) r) (fill_slice arr curr (v + 1) off, v + 1))
        as [arr' curr'] eqn:Ef.
      cbv zeta in IH |- *.
      destruct IH as [IHl IHn]; [lia|exact Hs'|split; [lia|exact Hall]|].
      rewrite zlen_cons. replace (off + (1 + zlen r)) with (off + 1 + zlen r) by lia.
      rewrite fill_slice_length in IHl. split; [exact IHl|].
      intros b Hb. rewrite IHn by (rewrite fill_slice_length; exact Hb).
      rewrite fill_slice_nth by (try lia; exact Hb). rewrite count_lt_cons.
      destruct (Z.of_nat b <? v + 1) eqn:E1.
      * destruct (curr <=? Z.of_nat b) eqn:E2; cbn [andb].
        -- replace (Z.of_nat b <? curr) with false by lia.
           replace (v <? Z.of_nat b) with false by lia.
           rewrite count_lt_zero; [lia|]. eapply Forall_impl; [|exact Hall]. cbn. intros; lia.
        -- replace (Z.of_nat b <? curr) with true by lia. reflexivity.
      * replace (Z.of_nat b <? curr) with false by lia.
        replace (v <? Z.of_nat b) with true by lia. lia.
    + (* v continues the current run: v = curr - 1 *)
      destruct prev as [p|]; cbn [differs] in Ed; [|discriminate].
      destruct Hprev as [Hp Hall']. assert (v = p) by lia. subst v.
      cbn [app].
      specialize (IH (Some p) (off + 1) arr curr Hcurr Hs').
      destruct (fold_left index_step (rle_from (Some p) (off + 1) r) (arr, curr)) as [arr' curr'] eqn:Ef.
      cbv zeta in IH |- *.
      destruct IH as [IHl IHn]; [split; [exact Hp|]; apply Hlow in Hall'; tauto|].
      rewrite zlen_cons. replace (off + (1 + zlen r)) with (off + 1 + zlen r) by lia.
      split; [exact IHl|].
      intros b Hb. rewrite IHn by exact Hb. rewrite count_lt_cons.
      destruct (Z.of_nat b <? curr) eqn:E1; [reflexivity|].
      replace (p <? Z.of_nat b) with true by lia. lia.
Qed.

Lemma offsets_of_length n a : 0 <= n -> length (offsets_of n a) = Z.to_nat (n + 1).
Proof. intros. unfold offsets_of, zrange. now rewrite !map_length, seq_length. Qed.

Lemma offsets_of_nth n a b : (b < Z.to_nat (n + 1))%nat ->
  nth b (offsets_of n a) 0 = count_lt a (Z.of_nat b).
Proof.
  intros Hb. unfold offsets_of, zrange. rewrite map_map.
  rewrite nth_indep with (d' := count_lt a (0 + Z.of_nat 0)) by (now rewrite map_length, seq_length).
  rewrite (map_nth (fun k => count_lt a (0 + Z.of_nat k)) (seq 0 (Z.to_nat (n + 1))) 0%nat b).
  rewrite seq_nth by exact Hb. f_equal.
Qed.

(** T2 (core): the index loop applied to the runs of a non-decreasing column of non-negative
    values yields, for every b in 0..n, the number of entries smaller than b.
    No upper bound on the values is needed: entries >= n are simply never counted. *)
Theorem index_runs_spec n a : 0 <= n -> NonDecr a -> Forall (fun x => 0 <= x) a ->
  index_runs n (rle_from None 0 a) (zlen a) = offsets_of n a.
Proof.
  intros Hn Hs Hpos. unfold index_runs.
  pose proof (index_loop_inv a None 0 (repeat 0 (Z.to_nat (n + 1))) 0 (Z.le_refl 0) Hs (conj eq_refl Hpos)) as H.
  destruct (fold_left index_step (rle_from None 0 a) (repeat 0 (Z.to_nat (n + 1)), 0)) as [arr' curr'].
  cbv zeta in H. cbn [Z.add] in H. destruct H as [Hl Hnth].
  rewrite repeat_length in Hl, Hnth.
  apply nth_ext with (d := 0) (d' := 0).
  - rewrite Hl. now rewrite offsets_of_length.
  - intros b Hb. rewrite Hl in Hb. rewrite Hnth by exact Hb.
    replace (Z.of_nat b <? 0) with false by lia. now rewrite offsets_of_nth.
Qed.

Theorem index_pixels_c_spec c a n : 1 <= c -> 0 <= n -> NonDecr a -> Forall (fun x => 0 <= x) a ->
  index_pixels_c c a n (zlen a) = Some (offsets_of n a).
Proof.
  intros Hc Hn Hs Hpos. unfold index_pixels_c.
  destruct (rlencode_spec a c Hc) as [-> _]. cbn [index_with]. unfold rle_spec.
  rewrite runs_of_pairs. now rewrite index_runs_spec.
Qed.

Theorem index_pixels_spec a n : 0 <= n -> NonDecr a -> Forall (fun x => 0 <= x) a ->
  index_pixels a n (zlen a) = Some (offsets_of n a).
Proof. intros. unfold index_pixels. apply index_pixels_c_spec; [lia|assumption..]. Qed.

Theorem index_bins_spec a n : 0 <= n -> NonDecr a -> Forall (fun x => 0 <= x) a ->
  index_bins a n (zlen a) = Some (offsets_of n a).
Proof.
  intros Hn Hs Hpos. unfold index_bins.
  destruct (rlencode_spec a 1 (Z.le_refl 1)) as [_ ->]. cbn [index_with]. unfold rle_spec.
  rewrite runs_of_pairs. now rewrite index_runs_spec.
Qed.

(* ------------------------------------------- consequences for the offsets of a column *)

Lemma NonDecr_inv x r : NonDecr (x :: r) -> NonDecr r /\ Forall (fun y => x <= y) r.
Proof. intros H. inversion H; subst. split; assumption. Qed.

(** in a non-decreasing column the entries smaller than b form a prefix *)
Lemma sorted_count_lt a : NonDecr a -> forall b k, (k < length a)%nat ->
  (Z.of_nat k < count_lt a b <-> nth k a 0 < b).
Proof.
  induction a as [|x r IH]; intros Hs b k Hk; cbn [length] in Hk; [lia|].
  apply NonDecr_inv in Hs. destruct Hs as [Hs Hall].
  rewrite count_lt_cons. pose proof (count_lt_bounds r b) as Hb.
  destruct (x <? b) eqn:Ex.
  - destruct k as [|k']; cbn [nth]; [lia|].
    rewrite <- (IH Hs b k') by lia. lia.
  - assert (Hz : count_lt r b = 0).
    { apply count_lt_zero. eapply Forall_impl; [|exact Hall]. cbn. intros; lia. }
    rewrite Hz. destruct k as [|k']; cbn [nth]; [lia|].
    assert (x <= nth k' r 0).
    { rewrite Forall_forall in Hall. apply Hall. apply nth_In. lia. }
    lia.
Qed.

(** the CSR invariant the reader relies on: row b occupies exactly the positions
    offset[b] <= k < offset[b+1] *)
Theorem csr_row_iff a b k : NonDecr a -> (k < length a)%nat ->
  (count_lt a b <= Z.of_nat k < count_lt a (b + 1) <-> nth k a 0 = b).
Proof.
  intros Hs Hk. pose proof (sorted_count_lt a Hs b k Hk). pose proof (sorted_count_lt a Hs (b + 1) k Hk). lia.
Qed.

Theorem offsets_props n a : 0 <= n -> NonDecr a -> Forall (fun x => 0 <= x < n) a ->
  let off := offsets_of n a in
  length off = Z.to_nat (n + 1) /\
  nth 0 off 0 = 0 /\
  nth (Z.to_nat n) off 0 = zlen a /\
  (forall b b', (b <= b')%nat -> (b' <= Z.to_nat n)%nat -> nth b off 0 <= nth b' off 0) /\
  (forall k, (k < length a)%nat ->
     nth (Z.to_nat (nth k a 0)) off 0 <= Z.of_nat k < nth (Z.to_nat (nth k a 0 + 1)) off 0).
Proof.
  intros Hn Hs Hr off. subst off. split; [now apply offsets_of_length|].
  split; [|split; [|split]].
  - rewrite offsets_of_nth by lia. apply count_lt_zero. eapply Forall_impl; [|exact Hr]. cbn. intros; lia.
  - rewrite offsets_of_nth by lia. rewrite Z2Nat.id by lia. apply count_lt_all.
    eapply Forall_impl; [|exact Hr]. cbn. intros; lia.
  - intros b b' Hb Hb'. rewrite !offsets_of_nth by lia. apply count_lt_mono. lia.
  - intros k Hk. assert (Hv : 0 <= nth k a 0 < n).
    { rewrite Forall_forall in Hr. apply Hr. now apply nth_In. }
    rewrite !offsets_of_nth by lia. rewrite !Z2Nat.id by lia.
    now apply csr_row_iff.
Qed.

(* ---------------------------------------------------------------- ValidCSR *)

(** the published schema of one data collection, as a proposition over its raw content *)
Definition ValidCSR (c : cooler) : Prop :=
  zlen (bin1 c) = nnz c /\ zlen (bin2 c) = nnz c /\ zlen (counts c) = nnz c /\
  SSorted (pixels_of c) /\
  (forall p, In p (pixels_of c) -> 0 <= row p < nbins c /\ 0 <= col p < nbins c) /\
  (symmetric_upper c = true -> forall p, In p (pixels_of c) -> row p <= col p) /\
  bin1_offset c = offsets_of (nbins c) (bin1 c) /\
  zlen (bin_chrom c) = nbins c /\ NonDecr (bin_chrom c) /\
  (forall x, In x (bin_chrom c) -> 0 <= x < nchroms c) /\
  chrom_offset c = offsets_of (nchroms c) (bin_chrom c) /\
  sum c = sumZ (counts c).

Lemma list_eqb_spec l1 : forall l2, list_eqb l1 l2 = true <-> l1 = l2.
Proof.
  induction l1 as [|x r IH]; intros [|y r2]; cbn [list_eqb]; try (split; [discriminate|discriminate]); [tauto|].
  rewrite andb_true_iff, IH, Z.eqb_eq. split; [intros [-> ->]; reflexivity|intros H; inversion H; auto].
Qed.

Lemma inrange_b_spec n l : inrange_b n l = true <->
  forall p, In p l -> 0 <= row p < n /\ 0 <= col p < n.
Proof.
  unfold inrange_b. rewrite forallb_forall. split; intros H p Hp; specialize (H p Hp); lia.
Qed.
Lemma upper_b_spec l : upper_b l = true <-> forall p, In p l -> row p <= col p.
Proof.
  unfold upper_b. rewrite forallb_forall. split; intros H p Hp; specialize (H p Hp); lia.
Qed.
Lemma inrange1_b_spec n l : inrange1_b n l = true <-> forall x, In x l -> 0 <= x < n.
Proof.
  unfold inrange1_b. rewrite forallb_forall. split; intros H p Hp; specialize (H p Hp); lia.
Qed.

(** the executable checker decides ValidCSR *)
Theorem valid_csr_b_spec c : valid_csr_b c = true <-> ValidCSR c.
Proof.
  unfold valid_csr_b, ValidCSR.
  rewrite !andb_true_iff, !Z.eqb_eq, ssorted_b_spec, inrange_b_spec, !list_eqb_spec,
          nondecr_b_spec, inrange1_b_spec.
  destruct (symmetric_upper c).
  - rewrite upper_b_spec. intuition congruence.
  - intuition congruence.
Qed.

Corollary valid_csr_b_sound c : valid_csr_b c = true -> ValidCSR c.
Proof. apply valid_csr_b_spec. Qed.

(* ---------------------------------------------------------------- create_valid *)

Lemma combine_rcv px : combine (combine (map row px) (map col px)) (map val px) = px.
Proof.
  induction px as [|[[r c] v] t IH]; [reflexivity|]. cbn [map combine]. rewrite IH. reflexivity.
Qed.

Lemma zlen_map {A B} (f : A -> B) l : zlen (map f l) = zlen l.
Proof. unfold zlen. now rewrite map_length. Qed.

Lemma ssorted_rows_nondecr px : SSorted px -> NonDecr (map row px).
Proof.
  unfold SSorted, NonDecr, keys. induction px as [|p t IH]; intros H; cbn [map] in *; [constructor|].
  inversion H as [|? ? Ht Hall]; subst. constructor; [now apply IH|].
  rewrite Forall_map in Hall |- *. eapply Forall_impl; [|exact Hall].
  intros q Hq. unfold klt, row in *. lia.
Qed.

(** T3: a strictly sorted, in-range (upper-triangular when symmetric) pixel stream over a
    bin table whose chromosome column is non-decreasing with ids in [0, n_chroms) is stored by
    create() — columns, the two indexes built by the code's loops, nnz, sum — as a collection
    that satisfies ValidCSR and holds exactly those pixels. *)
Theorem create_valid n_chroms chroms px symm :
  0 <= n_chroms -> NonDecr chroms -> (forall x, In x chroms -> 0 <= x < n_chroms) ->
  SSorted px ->
  (forall p, In p px -> 0 <= row p < zlen chroms /\ 0 <= col p < zlen chroms) ->
  (symm = true -> forall p, In p px -> row p <= col p) ->
  exists c, create_model n_chroms chroms px symm = Some c /\ ValidCSR c /\ pixels_of c = px
            /\ nbins c = zlen chroms /\ nnz c = zlen px /\ symmetric_upper c = symm.
Proof.
  intros Hnc Hcs Hcr Hs Hr Hu. unfold create_model.
  assert (Hrows : Forall (fun x => 0 <= x) (map row px)).
  { rewrite Forall_map, Forall_forall. intros p Hp. apply Hr in Hp. lia. }
  assert (Hch : Forall (fun x => 0 <= x) chroms).
  { rewrite Forall_forall. intros x Hx. apply Hcr in Hx. lia. }
  rewrite index_bins_spec by (try assumption).
  rewrite <- (zlen_map row px).
  rewrite index_pixels_spec by (try assumption; try apply zlen_nonneg; now apply ssorted_rows_nondecr).
  eexists. split; [reflexivity|].
  unfold ValidCSR, pixels_of. cbn [bin1 bin2 counts nnz nbins nchroms bin_chrom bin1_offset chrom_offset sum symmetric_upper].
  rewrite combine_rcv, !zlen_map. repeat split; auto; try (apply Hr; assumption); try (apply Hcr; assumption).
Qed.

(* ------------------------------------- the one-shot specification is a run-length encoding *)

Fixpoint skip_eq (p : Z) (a : list Z) : list Z :=
  match a with
  | [] => []
  | v :: r => if v =? p then skip_eq p r else a
  end.

Definition first_start (sv : list (Z * Z)) (n : Z) : Z :=
  match sv with [] => n | (s, _) :: _ => s end.

Definition dec (sv : list (Z * Z)) (n : Z) : list Z :=
  rle_decode (rle_of_pairs n sv).

Lemma skip_eq_len p a : zlen (skip_eq p a) <= zlen a.
Proof.
  induction a as [|v r IH]; cbn [skip_eq]; [lia|]. destruct (v =? p); rewrite ?zlen_cons; rewrite ?zlen_cons in *; lia.
Qed.

Lemma first_start_rle r : forall p k,
  first_start (rle_from (Some p) k r) (k + zlen r) = k + (zlen r - zlen (skip_eq p r)).
Proof.
  induction r as [|v t IH]; intros p k; cbn [rle_from skip_eq differs].
  - cbn [first_start]. rewrite zlen_nil. lia.
  - destruct (v =? p) eqn:E; cbn [negb app].
    + assert (v = p) by lia. subst v. rewrite zlen_cons.
      replace (k + (1 + zlen t)) with (k + 1 + zlen t) by lia. rewrite IH. lia.
    + cbn [first_start]. lia.
Qed.

Lemma repeat_skip_eq v r :
  repeat v (Z.to_nat (zlen r - zlen (skip_eq v r))) ++ skip_eq v r = r.
Proof.
  induction r as [|x t IH]; cbn [skip_eq]; [reflexivity|].
  destruct (x =? v) eqn:E.
  - assert (x = v) by lia. subst x. pose proof (skip_eq_len v t). rewrite zlen_cons.
    replace (Z.to_nat (1 + zlen t - zlen (skip_eq v t))) with (S (Z.to_nat (zlen t - zlen (skip_eq v t)))) by lia.
    cbn [repeat app]. now rewrite IH.
  - replace (zlen (x :: t) - zlen (x :: t)) with 0 by lia. reflexivity.
Qed.

Lemma dec_cons s v rest n :
  dec ((s, v) :: rest) n = repeat v (Z.to_nat (first_start rest n - s)) ++ dec rest n.
Proof.
  unfold dec, rle_decode, rle_of_pairs. cbn [map fst snd app].
  destruct rest as [|[s' v'] rest']; cbn [map fst snd app diffs combine concat first_start]; reflexivity.
Qed.

Lemma dec_rle_from a : forall prev off,
  dec (rle_from prev off a) (off + zlen a) =
  match prev with None => a | Some p => skip_eq p a end.
Proof.
  induction a as [|v r IH]; intros prev off.
  - cbn [rle_from]. destruct prev; reflexivity.
  - cbn [rle_from]. rewrite zlen_cons. replace (off + (1 + zlen r)) with (off + 1 + zlen r) by lia.
    destruct (differs prev v) eqn:Ed; cbn [app].
    + rewrite dec_cons, IH, first_start_rle.
      pose proof (skip_eq_len v r).
      replace (Z.to_nat (off + 1 + (zlen r - zlen (skip_eq v r)) - off))
        with (S (Z.to_nat (zlen r - zlen (skip_eq v r)))) by lia.
      cbn [repeat app]. rewrite repeat_skip_eq.
      destruct prev as [p|]; [|reflexivity]. cbn [differs] in Ed. cbn [skip_eq].
      destruct (v =? p); [discriminate|reflexivity].
    + destruct prev as [p|]; cbn [differs] in Ed; [|discriminate].
      rewrite IH. cbn [skip_eq]. destruct (v =? p) eqn:E; [|discriminate].
      assert (v = p) by lia. now subst.
Qed.

(** decoding the specification gives the array back *)
Theorem rle_decode_spec a : rle_decode (rle_spec a) = a.
Proof. unfold rle_spec. exact (dec_rle_from a None 0). Qed.

(** neighbouring runs carry different values (runs are maximal) *)
Fixpoint AdjDistinct (prev : option Z) (l : list Z) : Prop :=
  match l with
  | [] => True
  | v :: t => differs prev v = true /\ AdjDistinct (Some v) t
  end.

Lemma rle_from_adjdistinct a : forall prev off, AdjDistinct prev (map snd (rle_from prev off a)).
Proof.
  induction a as [|v r IH]; intros prev off; cbn [rle_from map]; [exact I|].
  destruct (differs prev v) eqn:Ed; cbn [app map snd AdjDistinct].
  - split; [exact Ed|apply IH].
  - destruct prev as [p|]; cbn [differs] in Ed; [|discriminate].
    assert (v = p) by lia. subst v. apply IH.
Qed.

Lemma rle_from_starts_lb a : forall prev off,
  Forall (fun s => off <= s) (map fst (rle_from prev off a) ++ [off + zlen a]).
Proof.
  induction a as [|v r IH]; intros prev off; cbn [rle_from map app].
  - constructor; [rewrite zlen_nil; lia|constructor].
  - rewrite zlen_cons. replace (off + (1 + zlen r)) with (off + 1 + zlen r) by lia.
    specialize (IH (Some v) (off + 1)).
    destruct (differs prev v); cbn [app map fst].
    + constructor; [lia|]. eapply Forall_impl; [|exact IH]. cbn. intros; lia.
    + eapply Forall_impl; [|exact IH]. cbn. intros; lia.
Qed.

Lemma rle_from_starts_incr a : forall prev off,
  StronglySorted Z.lt (map fst (rle_from prev off a) ++ [off + zlen a]).
Proof.
  induction a as [|v r IH]; intros prev off; cbn [rle_from map app].
  - constructor; constructor.
  - rewrite zlen_cons. replace (off + (1 + zlen r)) with (off + 1 + zlen r) by lia.
    destruct (differs prev v); cbn [app map fst].
    + constructor; [apply IH|].
      pose proof (rle_from_starts_lb r (Some v) (off + 1)) as H.
      eapply Forall_impl; [|exact H]. cbn. intros; lia.
    + apply IH.
Qed.

Lemma diffs_pos l : StronglySorted Z.lt l -> Forall (fun d => 1 <= d) (diffs l).
Proof.
  induction l as [|x t IH]; intros H; cbn [diffs]; [constructor|].
  destruct t as [|y t']; [constructor|].
  inversion H as [|? ? Ht Hall]; subst. constructor.
  - inversion Hall; subst. lia.
  - apply IH. exact Ht.
Qed.

(** the specification is *the* run-length encoding: it decodes to the array, its runs are
    non-empty and maximal, and its starts are strictly increasing from 0 *)
Theorem rle_spec_characterised a :
  let '(starts, lengths, values) := rle_spec a in
  rle_decode (starts, lengths, values) = a /\
  AdjDistinct None values /\
  Forall (fun l => 1 <= l) lengths /\
  StronglySorted Z.lt (starts ++ [zlen a]) /\
  length starts = length values /\ length lengths = length values.
Proof.
  pose proof (rle_decode_spec a) as Hd. unfold rle_spec, rle_of_pairs in *.
  split; [exact Hd|]. split; [apply rle_from_adjdistinct|].
  pose proof (rle_from_starts_incr a None 0) as Hi. cbn [Z.add] in Hi.
  split; [now apply diffs_pos|]. split; [exact Hi|].
  rewrite !map_length. split; [reflexivity|].
  generalize (rle_from None 0 a) (zlen a). intros sv n.
  induction sv as [|[s v] t IH]; [reflexivity|].
  cbn [map fst app length]. destruct t as [|[s' v'] t']; [reflexivity|].
  cbn [map fst app diffs length] in *. now rewrite IH.
Qed.

(* --------------------------------------------- bin-type / bin-size attributes (T5) *)
From Cooler Require Import Model.Bins Proofs.BinsProofs.

(** the recorded bin type is "fixed" exactly when a bin size is recorded, and a recorded bin
    size is true of the stored table (C20): every chromosome is the ideal b-tiling *)
Theorem info_consistent blocks fixed bs :
  ValidBlocks blocks -> info_bins (concat blocks) = (fixed, bs) ->
  (fixed = true <-> exists b, bs = Some b) /\
  (fixed = false <-> bs = None) /\
  bs = get_binsize (concat blocks) /\
  forall b, bs = Some b ->
    1 <= b /\ forall i blk, nth_error blocks i = Some blk ->
      blk = ideal_chrom (Z.of_nat i) (chrom_end blk) b.
Proof.
  intros HV H. unfold info_bins in H.
  destruct (get_binsize (concat blocks)) as [b0|] eqn:E; inversion H; subst.
  - split; [split; [eauto|reflexivity]|]. split; [split; discriminate|]. split; [reflexivity|].
    intros b Hb. inversion Hb; subst. now apply binsize_truthful.
  - split; [split; [discriminate|intros [b Hb]; discriminate]|]. split; [tauto|]. split; [reflexivity|].
    intros b Hb. discriminate.
Qed.

(* ------------------------------------ ValidCSR as an invariant of histories (T4, conditional) *)

Definition GoodStream (s : Z * list Z * list pixel * bool) : Prop :=
  let '(nc, chroms, px, symm) := s in
  0 <= nc /\ NonDecr chroms /\ (forall x, In x chroms -> 0 <= x < nc) /\
  SSorted px /\
  (forall p, In p px -> 0 <= row p < zlen chroms /\ 0 <= col p < zlen chroms) /\
  (symm = true -> forall p, In p px -> row p <= col p).

Section History.
  (** an operation (create, load, merge, coarsen, one zoom level, one cell of a scool ...)
      reads the collections written so far and hands create() a bin table and a pixel stream *)
  Variable op : Type.
  Variable plan : op -> list cooler -> Z * list Z * list pixel * bool.
  (** the producer theorems (C06-C09, C17): from valid inputs every operation streams strictly
      sorted, in-range, upper-triangular pixels over a valid bin table *)
  Hypothesis producers_ok : forall o st, Forall ValidCSR st -> GoodStream (plan o st).

  Definition step (st : list cooler) (o : op) : list cooler :=
    let '(nc, chroms, px, symm) := plan o st in
    match create_model nc chroms px symm with
    | Some c => st ++ [c]
    | None => st
    end.
  Definition run_history (ops : list op) (init : list cooler) : list cooler := fold_left step ops init.

  Theorem history_valid ops : forall init,
    Forall ValidCSR init -> Forall ValidCSR (run_history ops init) /\
    (length (run_history ops init) = length init + length ops)%nat.
  Proof.
    unfold run_history. induction ops as [|o t IH]; intros init Hi; cbn [fold_left length].
    - split; [exact Hi|lia].
    - pose proof (producers_ok o init Hi) as Hg. unfold step at 2 4.
      destruct (plan o init) as [[[nc chroms] px] symm]. cbn in Hg.
      destruct Hg as (H1 & H2 & H3 & H4 & H5 & H6).
      destruct (create_valid nc chroms px symm H1 H2 H3 H4 H5 H6) as (c & Ec & Hv & _).
      rewrite Ec.
      assert (Hi' : Forall ValidCSR (init ++ [c])) by (apply Forall_app; split; [exact Hi|constructor; [exact Hv|constructor]]).
      destruct (IH _ Hi') as [IH1 IH2]. split; [exact IH1|]. rewrite IH2, app_length. cbn [length]. lia.
  Qed.
End History.

(* ---------------------------------------------------- further consequences of ValidCSR *)

Lemma ValidCSR_rows_nondecr c : ValidCSR c -> NonDecr (bin1 c) /\ Forall (fun x => 0 <= x < nbins c) (bin1 c).
Proof.
  intros (L1 & L2 & L3 & Hs & Hr & _).
  assert (Hlen : length (bin1 c) = length (bin2 c) /\ length (bin1 c) = length (counts c)) by (unfold zlen in *; lia).
  assert (Hrow : map row (pixels_of c) = bin1 c).
  { unfold pixels_of. destruct Hlen as [Ha Hb]. revert Ha Hb.
    generalize (bin1 c) (bin2 c) (counts c). intros l1.
    induction l1 as [|x t IH]; intros [|y t2] [|z t3] Ha Hb; cbn [length] in *; try lia; [reflexivity|].
    cbn [combine map]. unfold row at 1. cbn [fst]. f_equal. apply IH; lia. }
  split.
  - rewrite <- Hrow. now apply ssorted_rows_nondecr.
  - rewrite <- Hrow, Forall_map, Forall_forall. intros p Hp. apply Hr in Hp. lia.
Qed.

(** re-indexing a valid collection reproduces its stored index (whatever the block size) *)
Theorem reindex_valid c cs : ValidCSR c -> 0 <= nchroms c -> 1 <= cs ->
  index_pixels_c cs (bin1 c) (nbins c) (nnz c) = Some (bin1_offset c) /\
  index_pixels (bin1 c) (nbins c) (nnz c) = Some (bin1_offset c) /\
  index_bins (bin_chrom c) (nchroms c) (nbins c) = Some (chrom_offset c).
Proof.
  intros Hv Hnc Hcs. destruct (ValidCSR_rows_nondecr c Hv) as [Hnd Hrg].
  destruct Hv as (L1 & L2 & L3 & Hs & Hr & Hu & Ho & Lc & Hcn & Hcr & Hco & Hsum).
  assert (Hpos : Forall (fun x => 0 <= x) (bin1 c)) by (eapply Forall_impl; [|exact Hrg]; cbn; intros; lia).
  assert (Hnb : 0 <= nbins c) by (rewrite <- Lc; apply zlen_nonneg).
  assert (Hcpos : Forall (fun x => 0 <= x) (bin_chrom c)) by (rewrite Forall_forall; intros x Hx; apply Hcr in Hx; lia).
  rewrite Ho, Hco, <- L1. repeat split.
  - now apply index_pixels_c_spec.
  - now apply index_pixels_spec.
  - rewrite <- Lc at 1. now apply index_bins_spec.
Qed.

(** in a valid collection the pixels of row b are exactly those at positions
    bin1_offset[b] <= k < bin1_offset[b+1] *)
Theorem ValidCSR_row_span c b k : ValidCSR c -> (k < length (bin1 c))%nat -> 0 <= b < nbins c ->
  (nth (Z.to_nat b) (bin1_offset c) 0 <= Z.of_nat k < nth (Z.to_nat (b + 1)) (bin1_offset c) 0
   <-> nth k (bin1 c) 0 = b).
Proof.
  intros Hv Hk Hb. destruct (ValidCSR_rows_nondecr c Hv) as [Hnd _].
  destruct Hv as (_ & _ & _ & _ & _ & _ & Ho & _). rewrite Ho.
  rewrite !offsets_of_nth by lia. rewrite !Z2Nat.id by lia. now apply csr_row_iff.
Qed.

(* ------------------------------------------------ the hypotheses are necessary (refutations) *)

(** without sortedness the loop does not compute the counting index *)
Theorem index_pixels_unsorted_refuted :
  exists a n, Forall (fun x => 0 <= x < n) a /\ index_pixels a n (zlen a) <> Some (offsets_of n a).
Proof.
  exists [1; 0], 2. split; [repeat constructor; lia|]. vm_compute. discriminate.
Qed.

(** the statement "whatever create() stores is valid" is false once the bounds check is switched
    off (as `cooler cload pairs` does): a strictly sorted upper-triangular stream with a bin id equal
    to nbins (known finding D2) is stored, indexed, and is not a valid collection *)
Theorem create_unchecked_refuted :
  exists nc chroms px, 0 <= nc /\ NonDecr chroms /\ (forall x, In x chroms -> 0 <= x < nc) /\
    SSorted px /\ (forall p, In p px -> row p <= col p) /\
    exists c, create_model nc chroms px true = Some c /\ ~ ValidCSR c.
Proof.
  exists 1, [0; 0], [((0, 1), 5); ((1, 2), 7)].
  split; [lia|]. split; [apply nondecr_b_spec; reflexivity|].
  split; [intros x [<-|[<-|[]]]; lia|].
  split; [apply ssorted_b_spec; reflexivity|].
  split; [intros p [<-|[<-|[]]]; cbn; lia|].
  eexists. split; [vm_compute; reflexivity|].
  rewrite <- valid_csr_b_spec. vm_compute. discriminate.
Qed.

(* ------------------------------------------------- write_pixels: column lengths (T0) *)

Lemma write_chunk_exact col acc data :
  (col = acc \/ acc = []) ->
  write_chunk (col, zlen acc) data = (acc ++ data, zlen (acc ++ data)).
Proof.
  intros H. unfold write_chunk. f_equal.
  - unfold write_at, resize, zlen. destruct H as [->| ->].
    + replace (Z.to_nat (Z.of_nat (length acc) + Z.of_nat (length data))) with (length acc + length data)%nat by lia.
      rewrite !Nat2Z.id.
      rewrite (firstn_all2 (n := (length acc + length data)%nat) acc) by lia.
      replace (length acc + length data - length acc)%nat with (length data) by lia.
      rewrite firstn_app, firstn_all, Nat.sub_diag. cbn [firstn]. rewrite app_nil_r.
      rewrite skipn_all2; [now rewrite app_nil_r|]. rewrite app_length, repeat_length. lia.
    + cbn [length app]. rewrite Nat2Z.id. cbn [firstn app].
      rewrite skipn_all2; [now rewrite app_nil_r|].
      rewrite app_length, firstn_length, repeat_length. cbn. lia.
  - unfold zlen. rewrite app_length. lia.
Qed.

Lemma fold_write_chunks chunks : forall col acc,
  (col = acc \/ acc = []) ->
  fold_left write_chunk chunks (col, zlen acc) =
  match chunks with
  | [] => (col, zlen acc)
  | _ => (acc ++ concat chunks, zlen (acc ++ concat chunks))
  end.
Proof.
  induction chunks as [|d t IH]; intros col acc H; [reflexivity|].
  cbn [fold_left]. rewrite write_chunk_exact by exact H.
  rewrite (IH (acc ++ d) (acc ++ d)) by (now left).
  destruct t; cbn [concat]; rewrite ?app_nil_r, ?app_assoc; reflexivity.
Qed.

(** pixel columns: whatever the preallocated size and however the stream is cut into chunks
    (no chunk at all and empty chunks included), the stored column is the concatenation of the
    chunks and its length is the returned nnz *)
Theorem write_pixels_col_spec init chunks :
  write_pixels_col init chunks = (concat chunks, zlen (concat chunks)).
Proof.
  unfold write_pixels_col.
  change 0 with (zlen (@nil Z)) at 2.
  rewrite (fold_write_chunks chunks _ []) by (now right).
  destruct chunks as [|d t]; [reflexivity|].
  cbn [app]. destruct (zlen (concat (d :: t)) =? 0) eqn:E; [|reflexivity].
  assert (H : concat (d :: t) = []) by (unfold zlen in E; destruct (concat (d :: t)); [reflexivity|cbn [length] in E; lia]).
  now rewrite H.
Qed.

(** the code before the repair of defect D21 (no final truncation): an empty stream left the
    preallocated rows in place *)
Theorem write_pixels_col_old_refuted :
  exists init chunks, write_pixels_col_old init chunks <> (concat chunks, zlen (concat chunks)).
Proof. exists 3, []. vm_compute. discriminate. Qed.

Lemma concat_map_map {A B} (f : A -> B) (l : list (list A)) : concat (map (map f) l) = map f (concat l).
Proof. induction l as [|x t IH]; [reflexivity|]. cbn [map concat]. now rewrite map_app, IH. Qed.

Lemma sumZ_app l1 l2 : sumZ (l1 ++ l2) = sumZ l1 + sumZ l2.
Proof.
  induction l1 as [|x t IH]; [reflexivity|].
  change (sumZ ((x :: t) ++ l2)) with (x + sumZ (t ++ l2)). change (sumZ (x :: t)) with (x + sumZ t). lia.
Qed.

Lemma sumZ_concat (f : pixel -> Z) chunks :
  sumZ (map (fun ch => sumZ (map f ch)) chunks) = sumZ (map f (concat chunks)).
Proof.
  induction chunks as [|c t IH]; [reflexivity|]. cbn [map concat]. rewrite map_app, sumZ_app, <- IH. reflexivity.
Qed.

(** create() fed chunk by chunk stores exactly what it stores for the concatenated stream *)
Theorem create_chunked_eq n_chroms chroms chunks symm :
  create_chunked n_chroms chroms chunks symm = create_model n_chroms chroms (concat chunks) symm.
Proof.
  unfold create_chunked, create_model. rewrite !write_pixels_col_spec.
  rewrite !concat_map_map, !zlen_map, sumZ_concat. reflexivity.
Qed.
