(** C05  Each valid input record is counted once, in the pixel that contains it.
    Only statements, each closed by [exact] of a lemma proved in Proofs/IngestProofs.v.
    A record is (side1, side2), a side is (chromosome code, position, sided payload); code -1 = a name
    that is not in the bin table.  [to_wrow ob r] carries the chromosome codes and the anchors after the
    one-based shift.  [InChrom blocks c a]: c is a listed chromosome and 0 <= a < its length. *)
From Cooler Require Import Model.Ingest Proofs.BinsProofs Proofs.ExtentProofs Proofs.PixelsProofs Proofs.IngestProofs.
From Cooler Require Import Proofs.FetchProofs.
From Cooler Require Model.Index Proofs.IndexProofs.
From Coq Require Import Permutation.

(** 1. an anchor inside its chromosome is assigned a bin of that chromosome that contains it
    (both paths: division by the reported bin size / searchsorted on the absolute bin starts) *)
Theorem C05_assign_contains : forall blocks i blk p,
  ValidBlocks blocks -> nth_error blocks i = Some blk -> 0 <= p < chrom_len blk ->
  exists x, nth_error (table blocks) (Z.to_nat (assign blocks (Z.of_nat i) p)) = Some x /\
            bchrom x = Z.of_nat i /\ bstart x <= p < bend x /\
            chrom_offset blocks i <= assign blocks (Z.of_nat i) p < chrom_offset blocks (S i).
Proof. exact assign_contains. Qed.
Print Assumptions C05_assign_contains.

(** 2. _sanitize_records (five whole-chunk phases) is a per-record map/filter: the chunk fails iff some
    record is an error on its own, otherwise the output is the concatenation of the per-record outputs *)
Theorem C05_sanitize_is_map_filter : forall blocks one_based validate ta chunk,
  sanitize_records blocks one_based validate ta chunk =
  collect (map (sanitize1 blocks one_based validate ta) chunk).
Proof. exact sanitize_is_map_filter. Qed.
Print Assumptions C05_sanitize_is_map_filter.

(** 2a. re-chunking does not change the outcome *)
Theorem C05_chunking_invariant : forall blocks ob val ta c1 c2,
  sanitize_records blocks ob val ta (c1 ++ c2) =
  match sanitize_records blocks ob val ta c1, sanitize_records blocks ob val ta c2 with
  | Some a, Some b => Some (a ++ b)
  | _, _ => None
  end.
Proof. exact sanitize_app. Qed.
Print Assumptions C05_chunking_invariant.

(** 2b. record order does not change the outcome *)
Theorem C05_order_invariant : forall blocks ob val ta c c', Permutation c c' ->
  match sanitize_records blocks ob val ta c, sanitize_records blocks ob val ta c' with
  | Some a, Some a' => Permutation a a'
  | None, None => True
  | _, _ => False
  end.
Proof. exact sanitize_perm. Qed.
Print Assumptions C05_order_invariant.

(** 2c. each retained record contributes exactly once: the counts stored by aggregate_records add up to the
    number of retained records, and the count of a pixel is the number of records binned to it *)
Theorem C05_total_equals_retained : forall blocks ob val ta chunk out,
  sanitize_records blocks ob val ta chunk = Some out ->
  sumZ (map snd (aggregate_records out)) =
  zlen (filter (fun r => is_keep (sanitize1 blocks ob val ta r)) chunk).
Proof. exact total_equals_retained. Qed.
Print Assumptions C05_total_equals_retained.

Theorem C05_aggregate_records_canon : forall recs,
  Canon (map (fun o => (okey o, 1)) recs) (aggregate_records recs) /\
  sumZ (map snd (aggregate_records recs)) = zlen recs.
Proof. exact aggregate_records_canon. Qed.
Print Assumptions C05_aggregate_records_canon.

Theorem C05_pixel_count_is_multiplicity : forall recs k,
  look (aggregate_records recs) k = zlen (filter (fun o => keqb (okey o) k) recs).
Proof. exact aggregate_records_multiplicity. Qed.
Print Assumptions C05_pixel_count_is_multiplicity.

(** 3. a retained valid record keeps its two sides (possibly exchanged) and each output bin contains the
    (shifted) anchor of the side it belongs to — never another bin or chromosome *)
Theorem C05_kept_contains : forall blocks ob r,
  ValidBlocks blocks ->
  InChrom blocks (wc1 (to_wrow ob r)) (wa1 (to_wrow ob r)) ->
  InChrom blocks (wc2 (to_wrow ob r)) (wa2 (to_wrow ob r)) ->
  forall ta o, sanitize1 blocks ob true ta r = OKeep o ->
  ((os1 o, os2 o) = (fst r, snd r) \/ (os1 o, os2 o) = (snd r, fst r)) /\
  contains_b blocks (sc (os1 o)) (shift1 ob (sp (os1 o))) (ob1 o) = true /\
  contains_b blocks (sc (os2 o)) (shift1 ob (sp (os2 o))) (ob2 o) = true.
Proof. exact kept_contains. Qed.
Print Assumptions C05_kept_contains.

(** 3a. reflect: every valid record is retained; a lower-triangle one has its sides exchanged; the result is
    upper triangular *)
Theorem C05_reflect_upper : forall blocks ob r,
  ValidBlocks blocks ->
  InChrom blocks (wc1 (to_wrow ob r)) (wa1 (to_wrow ob r)) ->
  InChrom blocks (wc2 (to_wrow ob r)) (wa2 (to_wrow ob r)) ->
  exists o, sanitize1 blocks ob true TrilReflect r = OKeep o /\
    (os1 o, os2 o) = (if is_tril (to_wrow ob r) then (snd r, fst r) else (fst r, snd r)) /\
    ob1 o <= ob2 o.
Proof. exact reflect_upper. Qed.
Print Assumptions C05_reflect_upper.

(** 3b. drop: a valid record is retained, unchanged, iff it is not in the lower triangle *)
Theorem C05_drop_lower : forall blocks ob r,
  InChrom blocks (wc1 (to_wrow ob r)) (wa1 (to_wrow ob r)) ->
  InChrom blocks (wc2 (to_wrow ob r)) (wa2 (to_wrow ob r)) ->
  sanitize1 blocks ob true TrilDrop r =
  if is_tril (to_wrow ob r) then ODrop
  else OKeep (assign blocks (wc1 (to_wrow ob r)) (wa1 (to_wrow ob r)),
              assign blocks (wc2 (to_wrow ob r)) (wa2 (to_wrow ob r)), fst r, snd r).
Proof. exact drop_lower. Qed.
Print Assumptions C05_drop_lower.

(** 3c. no triangle action: every valid record is retained unchanged *)
Theorem C05_none_keeps_all : forall blocks ob r,
  InChrom blocks (wc1 (to_wrow ob r)) (wa1 (to_wrow ob r)) ->
  InChrom blocks (wc2 (to_wrow ob r)) (wa2 (to_wrow ob r)) ->
  sanitize1 blocks ob true TrilNone r =
  OKeep (assign blocks (wc1 (to_wrow ob r)) (wa1 (to_wrow ob r)),
         assign blocks (wc2 (to_wrow ob r)) (wa2 (to_wrow ob r)), fst r, snd r).
Proof. exact none_keeps_all. Qed.
Print Assumptions C05_none_keeps_all.

(** 4. one-based input is zero-based input shifted by exactly one: same verdict, same pixel *)
Theorem C05_one_based_shift : forall blocks val ta r,
  outcome_bins (sanitize1 blocks true val ta r) = outcome_bins (sanitize1 blocks false val ta (dec_rec r)).
Proof. exact one_based_shift. Qed.
Print Assumptions C05_one_based_shift.

(** 5. records on unlisted chromosomes are dropped; a record on listed chromosomes with a (shifted) position
    < 0 or > L makes its chunk fail; a retained record has 0 <= position <= L *)
Theorem C05_unknown_dropped : forall blocks ob val ta r,
  known r = false -> sanitize1 blocks ob val ta r = ODrop.
Proof. exact unknown_dropped. Qed.
Print Assumptions C05_unknown_dropped.

Theorem C05_reject_out_of_range : forall blocks ob ta chunk r,
  In r chunk -> known r = true ->
  let w := to_wrow ob r in
  (wa1 w < 0 \/ wa2 w < 0 \/ chromsize_of blocks (wc1 w) < wa1 w \/ chromsize_of blocks (wc2 w) < wa2 w) ->
  sanitize_records blocks ob true ta chunk = None.
Proof. exact reject_chunk. Qed.
Print Assumptions C05_reject_out_of_range.

Theorem C05_accepted_in_range : forall blocks ob ta r o,
  sanitize1 blocks ob true ta r = OKeep o ->
  known r = true /\
  let w := to_wrow ob r in
  0 <= wa1 w <= chromsize_of blocks (wc1 w) /\ 0 <= wa2 w <= chromsize_of blocks (wc2 w).
Proof. exact accepted_in_range. Qed.
Print Assumptions C05_accepted_in_range.

(** 5'. the full statement of the property ("position >= L is rejected") is FALSE of the code — known finding D2:
    a zero-based position equal to the chromosome length is accepted and binned into the next chromosome's
    first bin, or gets the out-of-range bin id nbins on the last chromosome.  C05_kept_contains therefore
    carries the hypothesis position < L. *)
Theorem C05_reject_refuted :
  let blocks := [[(0,0,10);(0,10,20)]; [(1,0,10)]] in
  let r : record := ((0, 20, 7), (0, 3, 8)) in
  valid_blocks_b blocks = true /\ known r = true /\ sp (fst r) = chromsize_of blocks (sc (fst r)) /\
  sanitize1 blocks false true TrilReflect r = OKeep (0, 2, (0, 3, 8), (0, 20, 7)) /\
  nth_error (table blocks) 2 = Some (1, 0, 10) /\
  sanitize1 [[(0,0,10);(0,10,20)]] false true TrilReflect r = OKeep (0, 2, (0, 3, 8), (0, 20, 7)) /\
  zlen (table [[(0,0,10);(0,10,20)]]) = 2.
Proof. exact reject_refuted. Qed.
Print Assumptions C05_reject_refuted.

(** 6. pre-binned records (_sanitize_pixels): per-record map/filter; both bin columns are shifted *)
Theorem C05_sanitize_pixels_is_map_filter : forall ob ta chunk,
  sanitize_pixels ob ta chunk = all_some (map (sanitize_px1 ob ta) chunk).
Proof. exact sanitize_pixels_is_map_filter. Qed.
Print Assumptions C05_sanitize_pixels_is_map_filter.

Theorem C05_sanitize_pixels_reflect : forall ob r,
  sanitize_px1 ob TrilReflect r =
  Some [ if shift1 ob (pb2 r) <? shift1 ob (pb1 r)
         then (shift1 ob (pb2 r), shift1 ob (pb1 r), px2 r, px1 r, pval r)
         else (shift1 ob (pb1 r), shift1 ob (pb2 r), px1 r, px2 r, pval r) ].
Proof. exact sanitize_px1_spec. Qed.
Print Assumptions C05_sanitize_pixels_reflect.

(** 7. `cooler cload pairs`: the stored pixels are aggregate_records of the per-record outputs of the whole input,
    however the reader cuts the file into chunks; the command fails iff some record is an error on its own.
    (The merge never emits a pixel whose bin1_id is >= nbins; such a bin id only arises from finding D2, and
    nothing is cut off when every retained record has its bin1 inside the table.) *)
Theorem C05_cload_pairs_spec : forall blocks zero_based ta chunks,
  cload_pairs blocks zero_based ta chunks =
  match collect (map (sanitize1 blocks (negb zero_based) true ta) (concat chunks)) with
  | None => None
  | Some recs => Some (filter (fun p => row p <? zlen (table blocks)) (aggregate_records recs))
  end.
Proof. exact cload_pairs_spec. Qed.
Print Assumptions C05_cload_pairs_spec.

Theorem C05_cload_pairs_nothing_cut : forall n recs,
  (forall o, In o recs -> ob1 o < n) ->
  filter (fun p => row p <? n) (aggregate_records recs) = aggregate_records recs.
Proof. exact aggregate_records_inrange. Qed.
Print Assumptions C05_cload_pairs_nothing_cut.

(** 8. integration with C02: what `cooler cload pairs` writes is a schema-valid collection storing the multiplicities.
    [ValidInput blocks ob recs] := every record of the input on listed chromosomes has BOTH shifted positions in
    [0, L) — this is exactly the hypothesis that excludes the known finding D2 (position = L is accepted by the
    code) together with all rejected inputs; records on unlisted chromosomes are unconstrained.
    Under it (valid bin table; reflect/drop for symmetric-upper storage) the command succeeds, the pixel table it
    hands to create() is strictly sorted, inside [0,nbins)^2 and upper triangular, so C02_create_valid applies:
    the written collection is ValidCSR, holds exactly the canonical aggregate, and every stored count is the
    number of input records binned to that pixel; the counts add up to the number of retained records. *)
Theorem C05_cload_pairs_valid_collection : forall blocks zero_based ta chunks symm,
  ValidBlocks blocks -> ta <> TrilRaise -> (symm = true -> ta = TrilReflect \/ ta = TrilDrop) ->
  ValidInput blocks (negb zero_based) (concat chunks) ->
  let out := flat_map kept (map (sanitize1 blocks (negb zero_based) true ta) (concat chunks)) in
  let px := aggregate_records out in
  cload_pairs blocks zero_based ta chunks = Some px /\
  SSorted px /\
  (forall p, In p px -> 0 <= row p < zlen (table blocks) /\ 0 <= col p < zlen (table blocks)) /\
  (symm = true -> forall p, In p px -> row p <= col p) /\
  (forall k, look px k = zlen (filter (fun o => keqb (okey o) k) out)) /\
  sumZ (map snd px) = zlen out /\
  exists c, Index.create_model (zlen blocks) (map bchrom (table blocks)) px symm = Some c /\
            IndexProofs.ValidCSR c /\ Index.pixels_of c = px /\
            Index.nbins c = zlen (table blocks) /\ Index.symmetric_upper c = symm.
Proof. exact cload_pairs_valid_collection. Qed.
Print Assumptions C05_cload_pairs_valid_collection.

(** without ValidInput the conclusion fails: the D2 input of C05_reject_refuted yields a pixel with bin2 = nbins,
    and the collection written for it is NOT schema-valid *)
Theorem C05_d2_breaks_schema :
  let blocks := [[(0,0,10);(0,10,20)]] in
  cload_pairs blocks true TrilReflect [[((0, 20, 7), (0, 3, 8))]] = Some [((0, 2), 1)] /\
  zlen (table blocks) = 2 /\
  match Index.create_model 1 (map bchrom (table blocks)) [((0, 2), 1)] true with
  | Some c => Index.valid_csr_b c = false
  | None => False
  end.
Proof. vm_compute. repeat split; reflexivity. Qed.
Print Assumptions C05_d2_breaks_schema.

(** non-vacuity: a variable-width table with a longer last bin, records on bin edges, a lower-triangle
    record, an unknown chromosome, one-based input *)
Example ex_C05_variable :
  let blocks := [[(0,0,10);(0,10,20)]; [(1,0,10);(1,10,22);(1,22,25)]; [(2,0,7)]] in
  valid_blocks_b blocks = true /\ get_binsize (table blocks) = None /\
  sanitize_records blocks true true TrilReflect
    [((1,23,1),(0,20,2)); ((-1,5,3),(0,1,4)); ((1,10,5),(1,11,6)); ((2,7,7),(1,25,8))] =
  Some [(1, 4, (0,20,2), (1,23,1)); (2, 3, (1,10,5), (1,11,6)); (4, 5, (1,25,8), (2,7,7))] /\
  aggregate_records [(1, 3, (0,20,2), (1,23,1)); (1, 3, (0,19,0), (1,22,0))] = [((1,3),2)].
Proof. vm_compute. repeat split; reflexivity. Qed.
Example ex_C05_inchrom :
  let blocks := [[(0,0,10);(0,10,20)]; [(1,0,10);(1,10,22);(1,22,25)]] in
  ValidBlocks blocks /\ InChrom blocks 1 24 /\ contains_b blocks 1 24 (assign blocks 1 24) = true /\ assign blocks 1 24 = 4.
Proof.
  split; [apply valid_blocks_b_sound; reflexivity|].
  split; [exists 1%nat, [(1,0,10);(1,10,22);(1,22,25)]; repeat split; vm_compute; congruence|].
  split; reflexivity.
Qed.
Example ex_C05_rejects :
  let blocks := [[(0,0,10);(0,10,20)]; [(1,0,7)]] in
  sanitize_records blocks false true TrilReflect [((0,3,0),(1,2,0)); ((1,8,0),(0,0,0))] = None /\
  sanitize_records blocks false true TrilReflect [((0,3,0),(1,2,0)); ((1,-1,0),(0,0,0))] = None /\
  sanitize_records blocks false true TrilRaise [((1,3,0),(0,2,0))] = None.
Proof. vm_compute. repeat split; reflexivity. Qed.
Example ex_C05_valid_input :
  let blocks := [[(0,0,10);(0,10,20)]; [(1,0,10);(1,10,22);(1,22,25)]] in
  let recs : list record := [((1,24,0),(0,19,0)); ((-1,99,0),(0,0,0)); ((0,0,0),(0,19,0)); ((0,19,0),(1,24,0))] in
  ValidBlocks blocks /\ ValidInput blocks false recs /\
  cload_pairs blocks true TrilReflect [firstn 1 recs; skipn 1 recs] = Some [((0,1),1); ((1,4),2)].
Proof.
  split; [apply valid_blocks_b_sound; reflexivity|]. split; [|reflexivity].
  intros r Hr Hk. cbn in Hr.
  destruct Hr as [<-|[<-|[<-|[<-|[]]]]]; try discriminate Hk; split;
    first [ exists 0%nat, [(0,0,10);(0,10,20)]; repeat split; vm_compute; congruence
          | exists 1%nat, [(1,0,10);(1,10,22);(1,22,25)]; repeat split; vm_compute; congruence ].
Qed.
