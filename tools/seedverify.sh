#!/bin/bash
# usage: tools/seedverify.sh <PROP> <seed-worktree> [seed-id]  -- verifies a seeded defect and runs the owning check against it
P=$1; WT=$2; ID=${3:-$P-1}
OUT=/verif/seeded/$ID; mkdir -p $OUT
cp $WT/patch.diff $WT/demo.py $OUT/ 2>/dev/null; cp $WT/meta.json $OUT/agent_meta.json 2>/dev/null
export TMPDIR=$WT/.tmp; mkdir -p $TMPDIR
echo "--- demo WITH change"; (cd $WT && PYTHONPATH=$WT/src timeout 600 /venv/bin/python -W ignore demo.py >/tmp/lead_scratch/demo_with_$ID.txt 2>&1; echo "exit $?"; tail -3 /tmp/lead_scratch/demo_with_$ID.txt | cut -c1-300) | tee $OUT/demo_with_change.txt
echo "--- demo WITHOUT change (/repo source)"; (cd $WT && PYTHONPATH=/repo/src timeout 600 /venv/bin/python -W ignore demo.py >/tmp/lead_scratch/demo_wo_$ID.txt 2>&1; echo "exit $?"; tail -2 /tmp/lead_scratch/demo_wo_$ID.txt | cut -c1-300) | tee $OUT/demo_without_change.txt
echo "--- suite WITH change"; (cd $WT && PYTHONPATH=$WT/src timeout 1500 /venv/bin/python -m pytest -q -p no:cacheprovider --timeout=900 tests 2>&1 | grep -E "passed|failed" | tail -1) | tee $OUT/suite_with_change.txt
unset TMPDIR
echo "--- check $P against the changed tree"; (cd /verif && VERIF_REPO=$WT timeout 3000 ./check $P 2>&1 | grep -E "^VIOLATION|^KNOWN|ERROR" | cut -c1-250; echo "exit ${PIPESTATUS[0]}") | tee $OUT/check_output.txt
rp=$(grep -o "replay=[^ ]*" $OUT/check_output.txt | head -1 | cut -d= -f2); [ -n "$rp" ] && cp $rp $OUT/replay.json 2>/dev/null
