(** C02 — integration: the producers' theorems (C06 unordered ingestion, C07 merge, C08 coarsen,
    C09 zoom levels) discharge the hypotheses of the history invariant of ValidCSR.
    Nothing here re-proves what the producers do; it shows that what their models store, indexed by
    the model of index_pixels, satisfies the schema predicate ValidCSR of Proofs/IndexProofs.v. *)
From Cooler Require Import Model.Merge Model.Coarsen Model.Index.
From Cooler Require Import Proofs.PixelsProofs Proofs.BinsProofs Proofs.MergeProofs Proofs.CoarsenProofs Proofs.IndexProofs.
From Coq Require Import Sorted Permutation ZifyBool.
Local Open Scope Z_scope.

(* ------------------------------------------------------------------ bridges between the models *)

Lemma filter_map_len {A B} (f : A -> B) (P : B -> bool) (l : list A) :
  zlen (filter P (map f l)) = zlen (filter (fun x => P (f x)) l).
Proof.
  unfold zlen. induction l as [|x t IH]; [reflexivity|]. cbn [map filter].
  destruct (P (f x)); cbn [length]; lia.
Qed.

(** the index the merge/ingest models store (Merge.index_of) is the counting index of C02 *)
Lemma index_of_offsets (n : nat) (px : list pixel) :
  Merge.index_of n px = offsets_of (Z.of_nat n) (map row px).
Proof.
  unfold Merge.index_of, offsets_of. replace (Z.to_nat (Z.of_nat n + 1)) with (S n) by lia.
  apply map_ext. intros b. unfold count_lt. now rewrite filter_map_len.
Qed.

(** what the merger reads of a stored collection *)
Definition of_csr (c : Index.cooler) : mcool Z := {| mc_off := Index.bin1_offset c; mc_px := pixels_of c |}.

Lemma pixels_rows c : zlen (bin1 c) = zlen (bin2 c) -> zlen (bin1 c) = zlen (counts c) ->
  map row (pixels_of c) = bin1 c.
Proof.
  unfold pixels_of, zlen. generalize (bin1 c) (bin2 c) (counts c). intros l1.
  induction l1 as [|x t IH]; intros [|y t2] [|z t3] Ha Hb; cbn [length] in *; try lia; [reflexivity|].
  cbn [combine map]. unfold row at 1. cbn [fst]. f_equal. apply IH; lia.
Qed.

(** a valid collection is a valid input of the merger (C07's ValidIn) *)
Lemma valid_csr_in c : ValidCSR c -> ValidIn (Z.to_nat (nbins c)) (of_csr c).
Proof.
  intros Hv. pose proof Hv as (L1 & L2 & L3 & Hs & Hr & _ & Ho & Lc & _).
  assert (Hrow : map row (pixels_of c) = bin1 c) by (apply pixels_rows; lia).
  assert (Hnb : 0 <= nbins c) by (rewrite <- Lc; apply zlen_nonneg).
  constructor; cbn [of_csr mc_off mc_px].
  - rewrite index_of_offsets, Z2Nat.id, Hrow by lia. exact Ho.
  - apply MergeProofs.ssorted_rowsorted. exact Hs.
  - rewrite Forall_forall. intros p Hp. apply Hr in Hp. unfold rowof, row in *. lia.
Qed.

(** a strictly sorted, in-range, triangular table over a valid chromosome column, stored by create():
    valid, and what the merger would read back of it is exactly (index_of, table) *)
Lemma store_valid n_chroms chroms px symm :
  0 <= n_chroms -> NonDecr chroms -> (forall x, In x chroms -> 0 <= x < n_chroms) ->
  SSorted px ->
  (forall p, In p px -> 0 <= row p < zlen chroms /\ 0 <= col p < zlen chroms) ->
  (symm = true -> forall p, In p px -> row p <= col p) ->
  exists c, create_model n_chroms chroms px symm = Some c /\ ValidCSR c /\ pixels_of c = px /\
            nbins c = zlen chroms /\ nchroms c = n_chroms /\ bin_chrom c = chroms /\ symmetric_upper c = symm /\
            of_csr c = mk_cool (length chroms) px.
Proof.
  intros H1 H2 H3 H4 H5 H6.
  destruct (create_valid n_chroms chroms px symm H1 H2 H3 H4 H5 H6) as (c & Ec & Hv & Hp & Hn & Hz & Hsy).
  exists c. split; [exact Ec|]. split; [exact Hv|]. split; [exact Hp|]. split; [exact Hn|].
  pose proof Ec as Ec'. unfold create_model in Ec'.
  destruct (index_bins chroms n_chroms (zlen chroms)); [|discriminate].
  destruct (index_pixels (map row px) (zlen chroms) (zlen px)); [|discriminate].
  inversion Ec'; subst c. cbn [nchroms bin_chrom]. split; [reflexivity|]. split; [reflexivity|]. split; [exact Hsy|].
  destruct Hv as (_ & _ & _ & _ & _ & _ & Ho & _).
  unfold of_csr, mk_cool. f_equal.
  - rewrite Ho. cbn [nbins bin1]. rewrite index_of_offsets. unfold zlen. reflexivity.
  - exact Hp.
Qed.

(** every key of the canonical aggregate is a key of the source *)
Lemma aggregate_keys_from (P : key -> Prop) (src : list pixel) :
  (forall p, In p src -> P (fst p)) -> forall p, In p (aggregate src) -> P (fst p).
Proof.
  intros H p Hp. destruct (aggregate_canon src) as (_ & K & _).
  assert (Hk : In (fst p) (keys (aggregate src))) by (apply in_map; exact Hp).
  apply K in Hk. unfold keys in Hk. apply in_map_iff in Hk. destruct Hk as (q & E & Hq).
  rewrite <- E. now apply H.
Qed.

Lemma allpx_of_csr (inputs : list Index.cooler) :
  allpx (map of_csr inputs) = concat (map pixels_of inputs).
Proof. unfold allpx. now rewrite map_map. Qed.

(* ------------------------------------------------------------------ (1) merge_coolers *)

(** inputs of one merge: valid collections over one bin table and one storage mode *)
Definition SameAxes (nc : Z) (chroms : list Z) (symm : bool) (c : Index.cooler) : Prop :=
  nchroms c = nc /\ bin_chrom c = chroms /\ symmetric_upper c = symm.

(** merge_coolers on valid inputs (model Merge.merge_g: CoolerMerger + validate_pixels + create) never
    fails, stores the canonical aggregate of all input pixels, and that table with the index
    index_pixels computes is a valid collection over the same axes — for every buffer size *)
Theorem merge_valid nc chroms symm (inputs : list Index.cooler) buf :
  inputs <> [] -> 1 <= zlen chroms -> 0 <= nc -> 0 <= buf ->
  Forall ValidCSR inputs -> Forall (SameAxes nc chroms symm) inputs ->
  let n := length chroms in
  let o := {| o_bounds := true; o_triu := symm; o_dup := true; o_sort := false |} in
  let out := aggregate (concat (map pixels_of inputs)) in
  merge_g n o (fun _ => true) sumZ (map of_csr inputs) buf = Ok (mk_cool n out) /\
  exists c, create_model nc chroms out symm = Some c /\ ValidCSR c /\ pixels_of c = out /\
            SameAxes nc chroms symm c /\ of_csr c = mk_cool n out.
Proof.
  intros Hne Hn Hnc Hb HV HA. cbv zeta. set (n := length chroms).
  set (o := {| o_bounds := true; o_triu := symm; o_dup := true; o_sort := false |}).
  assert (Hnb : forall c, In c inputs -> nbins c = zlen chroms /\ ValidCSR c /\ symmetric_upper c = symm).
  { intros c Hc. rewrite Forall_forall in HV, HA. pose proof (HV c Hc) as Hv. destruct (HA c Hc) as (_ & Hch & Hs).
    split; [|split; [exact Hv|exact Hs]].
    destruct Hv as (_ & _ & _ & _ & _ & _ & _ & Lc & _). now rewrite <- Lc, Hch. }
  assert (HVin : Forall (ValidIn n) (map of_csr inputs)).
  { rewrite Forall_map, Forall_forall. intros c Hc. destruct (Hnb c Hc) as (E & Hv & _).
    pose proof (valid_csr_in c Hv) as H. rewrite E in H. unfold n. unfold zlen in H. now rewrite Nat2Z.id in H. }
  assert (Hkeys : forall p, In p (concat (map pixels_of inputs)) ->
            (0 <= fst (fst p) < zlen chroms /\ 0 <= snd (fst p) < zlen chroms) /\ (symm = true -> fst (fst p) <= snd (fst p))).
  { intros p Hp. apply in_concat in Hp. destruct Hp as (l & Hl & Hp). apply in_map_iff in Hl. destruct Hl as (c & <- & Hc).
    destruct (Hnb c Hc) as (E & Hv & Hs). destruct Hv as (_ & _ & _ & _ & Hr & Hu & _).
    split; [rewrite <- E; apply (Hr p Hp)|]. intros Hsy. apply Hu; [congruence|exact Hp]. }
  split.
  - rewrite <- (groupby_sum_aggregate (concat (map pixels_of inputs))), <- allpx_of_csr.
    apply merge_g_total; auto.
    + unfold n. unfold zlen in Hn. lia.
    + destruct inputs; [contradiction|discriminate].
    + rewrite allpx_of_csr, Forall_forall. intros p Hp. destruct (Hkeys p Hp) as [Hr Hu].
      unfold KeyOK. cbn [o_bounds o_triu o]. unfold n. unfold zlen in Hr. split; [intros _; exact Hr|exact Hu].
  - destruct inputs as [|c0 rest]; [contradiction|].
    assert (Hc0 : In c0 (c0 :: rest)) by now left.
    rewrite Forall_forall in HV, HA. destruct (HA c0 Hc0) as (Hn0 & Hch0 & Hs0). pose proof (HV c0 Hc0) as Hv0.
    destruct Hv0 as (_ & _ & _ & _ & _ & _ & _ & _ & Hcn & Hcr & _).
    rewrite Hch0 in Hcn. rewrite Hch0, Hn0 in Hcr.
    destruct (store_valid nc chroms (aggregate (concat (map pixels_of (c0 :: rest)))) symm Hnc Hcn Hcr) as (c & Ec & Hv & Hp & Hb1 & Hb2 & Hb3 & Hb4 & Hb5).
    + destruct (aggregate_canon (concat (map pixels_of (c0 :: rest)))) as (S & _). exact S.
    + intros p Hp. apply (aggregate_keys_from (fun k => 0 <= fst k < zlen chroms /\ 0 <= snd k < zlen chroms) _) in Hp; [exact Hp|].
      intros q Hq. apply (Hkeys q Hq).
    + intros Hsy p Hp. apply (aggregate_keys_from (fun k => fst k <= snd k) _) in Hp; [exact Hp|].
      intros q Hq. now apply (Hkeys q Hq).
    + exists c. split; [exact Ec|]. split; [exact Hv|]. split; [exact Hp|]. split; [|exact Hb5].
      unfold SameAxes. auto.
Qed.

(* ------------------------------------------------------------------ (3) unordered ingestion *)

(** what create_cooler(ordered=False) demands of one input chunk: bin ids in range, upper triangular
    in symmetric mode, no duplicate pixel inside the chunk when dupcheck is on, rows non-decreasing
    unless ensure_sorted is requested (C06's precondition) *)
Definition GoodChunk (n : nat) (symm : bool) (o : copts) (ch : list pixel) : Prop :=
  (forall p, In p ch -> (0 <= row p < Z.of_nat n /\ 0 <= col p < Z.of_nat n) /\ (symm = true -> row p <= col p)) /\
  (o_dup o = true -> has_dup ch = false) /\
  (o_sort o = true \/ MergeProofs.RowSorted ch).

(** create_from_unordered (model Merge.unordered_g: one temporary cooler per chunk, optional first merge
    pass over the edge list the code computes from max_merge, final merge) on such chunks never fails,
    stores the canonical aggregate of all records, and that table with the index index_pixels computes
    is a valid collection — for every chunking, chunk order, mergebuf >= 0 and max_merge *)
Theorem unordered_valid nc chroms symm o (chunks : list (list pixel)) buf max_merge :
  chunks <> [] -> 1 <= zlen chroms -> 0 <= nc -> 0 <= buf ->
  NonDecr chroms -> (forall x, In x chroms -> 0 <= x < nc) ->
  (o_triu o = true -> symm = true) ->
  let n := length chroms in
  Forall (GoodChunk n symm o) chunks ->
  let out := aggregate (concat chunks) in
  unordered_g n o (fun _ => true) sumZ chunks buf (unordered_edges (length chunks) max_merge) = Ok (mk_cool n out) /\
  exists c, create_model nc chroms out symm = Some c /\ ValidCSR c /\ pixels_of c = out /\
            SameAxes nc chroms symm c /\ of_csr c = mk_cool n out.
Proof.
  intros Hne Hn Hnc Hb Hcn Hcr Htri. cbv zeta. set (n := length chroms). intros HG.
  assert (Hn1 : (1 <= n)%nat) by (unfold n; unfold zlen in Hn; lia).
  assert (Hkeys : forall p, In p (concat chunks) ->
            (0 <= fst (fst p) < zlen chroms /\ 0 <= snd (fst p) < zlen chroms) /\ (symm = true -> fst (fst p) <= snd (fst p))).
  { intros p Hp. apply in_concat in Hp. destruct Hp as (ch & Hch & Hp). rewrite Forall_forall in HG.
    destruct (HG ch Hch) as (Hk & _). apply (Hk p Hp). }
  split.
  - apply unordered_correct; auto.
    + rewrite Forall_forall in HG |- *. intros ch Hch. destruct (HG ch Hch) as (Hk & Hd & Hs).
      split; [|split; [exact Hd|split; [exact Hs|]]].
      * rewrite Forall_forall. intros p Hp. destruct (Hk p Hp) as [Hr Hu]. unfold KeyOK, row, col in *.
        split; [intros _; exact Hr|intros Ht; apply Hu, Htri, Ht].
      * rewrite Forall_forall. intros p Hp. destruct (Hk p Hp) as [Hr _]. unfold rowof, row in *. lia.
    + apply unordered_edges_ok. destruct chunks; [contradiction|cbn [length]; lia].
  - destruct (store_valid nc chroms (aggregate (concat chunks)) symm Hnc Hcn Hcr) as (c & Ec & Hv & Hp & Hb1 & Hb2 & Hb3 & Hb4 & Hb5).
    + destruct (aggregate_canon (concat chunks)) as (S & _). exact S.
    + intros p Hp. apply (aggregate_keys_from (fun k => 0 <= fst k < zlen chroms /\ 0 <= snd k < zlen chroms) _) in Hp; [exact Hp|].
      intros q Hq. apply (Hkeys q Hq).
    + intros Hsy p Hp. apply (aggregate_keys_from (fun k => fst k <= snd k) _) in Hp; [exact Hp|].
      intros q Hq. now apply (Hkeys q Hq).
    + exists c. split; [exact Ec|]. split; [exact Hv|]. split; [exact Hp|]. split; [|exact Hb5].
      unfold SameAxes. auto.
Qed.

(* ------------------------------------------------------------------ (2) coarsen_cooler *)

Lemma nondecr_app a b : NonDecr a -> NonDecr b -> (forall x y, In x a -> In y b -> x <= y) -> NonDecr (a ++ b).
Proof.
  unfold NonDecr. induction a as [|x t IH]; intros Ha Hb H; cbn [app]; [exact Hb|].
  inversion Ha as [|? ? Ht Hall]; subst. constructor.
  - apply IH; auto. intros u v Hu Hv. apply H; [now right|exact Hv].
  - apply Forall_app. split; [exact Hall|]. rewrite Forall_forall. intros y Hy. apply H; [now left|exact Hy].
Qed.

Lemma nondecr_const (l : list Z) v : (forall x, In x l -> x = v) -> NonDecr l.
Proof.
  unfold NonDecr. induction l as [|x t IH]; intros H; constructor.
  - apply IH. intros y Hy. apply H. now right.
  - rewrite Forall_forall. intros y Hy. rewrite (H x (or_introl eq_refl)), (H y (or_intror Hy)). lia.
Qed.

Lemma nondecr_nth l : NonDecr l -> forall i j, (i <= j < length l)%nat -> nth i l 0 <= nth j l 0.
Proof.
  unfold NonDecr. induction 1 as [|x t Ht IH Hall]; intros i j Hij; cbn [length] in Hij; [lia|].
  destruct i as [|i], j as [|j]; cbn [nth]; try lia.
  - rewrite Forall_forall in Hall. apply Hall. apply nth_In. lia.
  - apply IH. lia.
Qed.

(** the chromosome column of a valid bin table (chromosome blocks in id order) is non-decreasing
    with ids in [0, number of chromosomes) *)
Lemma chroms_from (bl : list (list bin)) : forall off,
  (forall i blk, nth_error bl i = Some blk -> forall x, In x blk -> bchrom x = off + Z.of_nat i) ->
  NonDecr (map bchrom (concat bl)) /\ (forall v, In v (map bchrom (concat bl)) -> off <= v < off + zlen bl).
Proof.
  induction bl as [|blk r IH]; intros off H; cbn [concat map].
  - split; [constructor|intros v []].
  - destruct (IH (off + 1)) as [IH1 IH2].
    { intros i b Hi x Hx. rewrite (H (S i) b Hi x Hx). lia. }
    assert (Hb : forall v, In v (map bchrom blk) -> v = off).
    { intros v Hv. apply in_map_iff in Hv. destruct Hv as (x & <- & Hx). rewrite (H O blk eq_refl x Hx). lia. }
    rewrite map_app, zlen_cons. pose proof (zlen_nonneg r). split.
    + apply nondecr_app; [now apply nondecr_const with (v := off)|exact IH1|].
      intros x y Hx Hy. rewrite (Hb x Hx). apply IH2 in Hy. lia.
    + intros v Hv. apply in_app_or in Hv. destruct Hv as [Hv|Hv]; [rewrite (Hb v Hv); lia|apply IH2 in Hv; lia].
Qed.

Lemma valid_blocks_chroms blocks : ValidBlocks blocks ->
  NonDecr (map bchrom (concat blocks)) /\ (forall v, In v (map bchrom (concat blocks)) -> 0 <= v < zlen blocks).
Proof.
  intros HV. destruct (chroms_from blocks 0) as [A B].
  - intros i blk Hi x Hx. destruct (HV i blk Hi) as [_ HT]. rewrite (tiled_chrom _ _ _ _ HT Hx). lia.
  - split; [exact A|]. intros v Hv. apply B in Hv. lia.
Qed.

(** the old-bin -> new-bin table is non-decreasing, so re-keying keeps pixels upper triangular *)
Lemma nondecr_map_zrange (f : Z -> Z) : (forall a b, a <= b -> f a <= f b) ->
  forall n lo, NonDecr (map f (zrange lo n)).
Proof.
  intros Hf. unfold NonDecr. induction n as [|n IH]; intros lo; [constructor|].
  rewrite BinsProofs.zrange_cons. cbn [map]. constructor; [apply IH|].
  rewrite Forall_map, Forall_forall. intros x Hx. apply BinsProofs.in_zrange in Hx. apply Hf. lia.
Qed.

Lemma itf_sorted k lens : 1 <= k -> Forall (fun n => 0 <= n) lens ->
  forall off, NonDecr (index_table_from off k lens).
Proof.
  intros Hk. induction 1 as [|n r Hn HF IH]; intros off; cbn [index_table_from]; [constructor|].
  apply nondecr_app; [|apply IH|].
  - apply nondecr_map_zrange. intros a b Hab. pose proof (Z.div_le_mono a b k ltac:(lia) Hab). lia.
  - intros x y Hx Hy. apply in_map_iff in Hx. destruct Hx as (m & <- & Hm). apply BinsProofs.in_zrange in Hm.
    apply (itf_lower k r Hk HF) in Hy. pose proof (div_lt_cdiv m n k Hk ltac:(lia)). lia.
Qed.

Lemma index_table_mono lens k i j : 1 <= k -> Forall (fun n => 0 <= n) lens -> 0 <= i <= j -> j < sumZ lens ->
  znth (index_table lens k) i 0 <= znth (index_table lens k) j 0.
Proof.
  intros Hk HF Hij Hj. unfold znth, index_table. apply nondecr_nth; [now apply itf_sorted|].
  pose proof (itf_length k lens HF 0) as Hl. unfold zlen in Hl. lia.
Qed.

(** an entry of a file history: the bin table (as chromosome blocks) and the stored collection *)
Definition EntryOK (e : list (list bin) * Index.cooler) : Prop :=
  let '(blocks, c) := e in
  ValidBlocks blocks /\ ValidCSR c /\ bin_chrom c = map bchrom (concat blocks) /\ nchroms c = zlen blocks.

(** coarsen_cooler (model Coarsen.coarsen_cooler: new bin table, chunked re-binning stream) applied to a
    valid collection: the new table is a valid tiling, the stored pixel table is the canonical aggregate of
    the re-keyed pixels, and with the indexes index_bins / index_pixels compute it is a valid collection —
    for every factor k >= 1, chunk size and batch size *)
Theorem coarsen_valid blocks c k chunksize batchsize :
  EntryOK (blocks, c) -> 1 <= k -> 1 <= chunksize -> 1 <= batchsize ->
  let sizes := map chrom_end blocks in
  let r := coarsen_cooler (concat blocks) sizes (pixels_of c) k chunksize batchsize in
  let nb := map (coarsen_block k) blocks in
  fst r = concat nb /\
  snd r = aggregate (map (rekey (index_table (map zlen blocks) k)) (pixels_of c)) /\
  exists c', create_model (zlen nb) (map bchrom (concat nb)) (snd r) (symmetric_upper c) = Some c' /\
             EntryOK (nb, c') /\ pixels_of c' = snd r /\ symmetric_upper c' = symmetric_upper c.
Proof.
  intros (HB & Hv & Hch & Hnc) Hk Hcs Hbs. cbv zeta.
  destruct (coarsen_bins_spec blocks k Hk HB) as (Eb & HBn & _ & Hlens).
  pose proof Hv as (L1 & L2 & L3 & Hs & Hr & Hu & _ & Lc & _).
  assert (Hnb : nbins c = zlen (concat blocks)) by (rewrite <- Lc, Hch; apply zlen_map).
  assert (Hrs : CoarsenProofs.RowSorted (pixels_of c)) by (apply CoarsenProofs.ssorted_rowsorted; exact Hs).
  assert (Hin : InRange (zlen (concat blocks)) (pixels_of c)).
  { unfold InRange. rewrite Forall_forall. intros p Hp. rewrite <- Hnb. now apply Hr. }
  cbn [coarsen_cooler fst snd].
  rewrite (coarsen_canon blocks (pixels_of c) k chunksize batchsize Hk Hcs Hbs HB Hrs (inrange_rows _ _ Hin)).
  split; [exact Eb|]. split; [reflexivity|].
  set (lens := map zlen blocks).
  assert (Hlnn : Forall (fun n => 0 <= n) lens).
  { unfold lens. rewrite Forall_map, Forall_forall. intros b _. apply zlen_nonneg. }
  assert (Hsum : sumZ lens = zlen (concat blocks)) by (unfold lens; now rewrite zlen_concat).
  assert (Hnewn : zlen (map bchrom (concat (map (coarsen_block k) blocks))) = sumZ (map (fun n => cdiv n k) lens)).
  { rewrite zlen_map, zlen_concat, Hlens. unfold lens. now rewrite map_map. }
  destruct (valid_blocks_chroms _ HBn) as [Hcn Hcr].
  destruct (store_valid (zlen (map (coarsen_block k) blocks)) (map bchrom (concat (map (coarsen_block k) blocks)))
              (aggregate (map (rekey (index_table lens k)) (pixels_of c))) (symmetric_upper c))
    as (c' & Ec & Hv' & Hp' & Hb1 & Hb2 & Hb3 & Hb4 & _).
  - apply zlen_nonneg.
  - exact Hcn.
  - exact Hcr.
  - destruct (aggregate_canon (map (rekey (index_table lens k)) (pixels_of c))) as (S & _). exact S.
  - intros p Hp. rewrite Hnewn.
    pose proof (coarsen_spec_inrange lens (pixels_of c) k Hk Hlnn) as Hcr'. rewrite Hsum in Hcr'. specialize (Hcr' Hin).
    unfold InRange, coarsen_spec in Hcr'. rewrite Forall_forall in Hcr'. now apply Hcr'.
  - intros Hsy p Hp.
    apply (aggregate_keys_from (fun kk => fst kk <= snd kk) _) in Hp; [exact Hp|].
    intros q Hq. apply in_map_iff in Hq. destruct Hq as (p0 & <- & Hp0). cbn [rekey fst].
    destruct (Hr p0 Hp0) as [Hr0 Hc0]. specialize (Hu Hsy p0 Hp0).
    apply index_table_mono; auto; lia.
  - exists c'. split; [exact Ec|]. split; [|split; [exact Hp'|exact Hb4]].
    unfold EntryOK. split; [exact HBn|]. split; [exact Hv'|]. split; [exact Hb3|exact Hb2].
Qed.

(* ------------------------------------------------------------------ histories *)

Definition entry := (list (list bin) * Index.cooler)%type.
Definition chroms_of_blocks (blocks : list (list bin)) : list Z := map bchrom (concat blocks).

Lemma blocks_nonempty blocks : ValidBlocks blocks -> blocks <> [] -> 1 <= zlen (chroms_of_blocks blocks).
Proof.
  intros HV Hne. destruct blocks as [|b r]; [contradiction|].
  destruct (HV O b eq_refl) as [Hb _]. unfold chroms_of_blocks. cbn [concat]. rewrite zlen_map, IndexProofs.zlen_app.
  destruct b; [contradiction|]. rewrite zlen_cons. pose proof (zlen_nonneg b0). pose proof (zlen_nonneg (concat r)). lia.
Qed.

(** One producing operation appends one collection to the history.  The premises of each rule are the
    documented preconditions on the USER's input plus "this is what the producer's model computed";
    nothing is assumed about the producer's output.
    - create:    create_cooler on a strictly sorted stream cut into chunks (ordered=True / a data frame)
    - unordered: create_cooler(ordered=False), any chunking / mergebuf / max_merge
    - merge:     merge_coolers of collections already in the history that share bin table and storage mode
    - coarsen:   coarsen_cooler of a collection already in the history (also one zoomify level: by
                 C09_zoom_level_eq_direct every zoom level is the direct coarsening of a base)        *)
Inductive Step : list entry -> list entry -> Prop :=
| S_create st blocks symm (chunks : list (list pixel)) c :
    ValidBlocks blocks ->
    SSorted (concat chunks) ->
    (forall p, In p (concat chunks) -> 0 <= row p < zlen (chroms_of_blocks blocks) /\ 0 <= col p < zlen (chroms_of_blocks blocks)) ->
    (symm = true -> forall p, In p (concat chunks) -> row p <= col p) ->
    create_chunked (zlen blocks) (chroms_of_blocks blocks) chunks symm = Some c ->
    Step st (st ++ [(blocks, c)])
| S_unordered st blocks symm o (chunks : list (list pixel)) buf max_merge m c :
    ValidBlocks blocks -> blocks <> [] -> chunks <> [] -> 0 <= buf ->
    (o_triu o = true -> symm = true) ->
    Forall (GoodChunk (length (chroms_of_blocks blocks)) symm o) chunks ->
    unordered_g (length (chroms_of_blocks blocks)) o (fun _ => true) sumZ chunks buf
                (unordered_edges (length chunks) max_merge) = Ok m ->
    create_model (zlen blocks) (chroms_of_blocks blocks) (mc_px m) symm = Some c ->
    Step st (st ++ [(blocks, c)])
| S_merge st blocks symm (ins : list entry) buf m c :
    ins <> [] -> blocks <> [] -> 0 <= buf ->
    Forall (fun e => In e st /\ fst e = blocks /\ symmetric_upper (snd e) = symm) ins ->
    merge_g (length (chroms_of_blocks blocks))
            {| o_bounds := true; o_triu := symm; o_dup := true; o_sort := false |}
            (fun _ => true) sumZ (map (fun e => of_csr (snd e)) ins) buf = Ok m ->
    create_model (zlen blocks) (chroms_of_blocks blocks) (mc_px m) symm = Some c ->
    Step st (st ++ [(blocks, c)])
| S_coarsen st blocks c0 k chunksize batchsize c :
    In (blocks, c0) st -> 1 <= k -> 1 <= chunksize -> 1 <= batchsize ->
    create_model (zlen (map (coarsen_block k) blocks)) (chroms_of_blocks (map (coarsen_block k) blocks))
                 (snd (coarsen_cooler (concat blocks) (map chrom_end blocks) (pixels_of c0) k chunksize batchsize))
                 (symmetric_upper c0) = Some c ->
    Step st (st ++ [(map (coarsen_block k) blocks, c)]).

Inductive Steps : list entry -> list entry -> Prop :=
| Steps_nil st : Steps st st
| Steps_cons st st' st'' : Step st st' -> Steps st' st'' -> Steps st st''.

Lemma step_valid st st' : Forall EntryOK st -> Step st st' -> Forall EntryOK st'.
Proof.
  intros HS H. destruct H as
    [st blocks symm chunks c HB Hs Hr Hu Ec
    |st blocks symm o chunks buf mm m c HB Hne Hcne Hb Ht HG Eu Ec
    |st blocks symm ins buf m c Hine Hne Hb Hins Em Ec
    |st blocks c0 k cs bs c Hin Hk Hcs Hbs Ec];
  apply Forall_app; (split; [exact HS|]); (constructor; [|constructor]).
  - (* create *)
    destruct (valid_blocks_chroms blocks HB) as [Hcn Hcr].
    rewrite create_chunked_eq in Ec.
    destruct (store_valid (zlen blocks) (chroms_of_blocks blocks) (concat chunks) symm (zlen_nonneg _) Hcn Hcr Hs Hr Hu)
      as (c' & Ec' & Hv & _ & _ & Hb2 & Hb3 & _).
    rewrite Ec in Ec'. inversion Ec'; subst c'. unfold EntryOK. auto.
  - (* unordered ingestion *)
    destruct (valid_blocks_chroms blocks HB) as [Hcn Hcr].
    destruct (unordered_valid (zlen blocks) (chroms_of_blocks blocks) symm o chunks buf mm Hcne
                (blocks_nonempty blocks HB Hne) (zlen_nonneg _) Hb Hcn Hcr Ht HG) as (Eu' & c' & Ec' & Hv & _ & (Hb2 & Hb3 & _) & _).
    rewrite Eu in Eu'. inversion Eu'; subst m. cbn [mc_px mk_cool] in Ec. rewrite Ec in Ec'. inversion Ec'; subst c'.
    unfold EntryOK. auto.
  - (* merge *)
    rewrite Forall_forall in HS, Hins.
    assert (HBk : ValidBlocks blocks).
    { destruct ins as [|e0 r]; [contradiction|]. destruct (Hins e0 (or_introl eq_refl)) as (Hin0 & <- & _).
      specialize (HS e0 Hin0). destruct e0 as [b0 c0]. now destruct HS. }
    destruct (valid_blocks_chroms blocks HBk) as [Hcn Hcr].
    destruct (merge_valid (zlen blocks) (chroms_of_blocks blocks) symm (map snd ins) buf) as (Em' & c' & Ec' & Hv & _ & (Hb2 & Hb3 & _) & _).
    + destruct ins; [contradiction|discriminate].
    + now apply blocks_nonempty.
    + apply zlen_nonneg.
    + exact Hb.
    + rewrite Forall_map, Forall_forall. intros e He. destruct (Hins e He) as (Hin & _). specialize (HS e Hin).
      destruct e as [b0 c0]. now destruct HS as (_ & Hv0 & _).
    + rewrite Forall_map, Forall_forall. intros e He. destruct (Hins e He) as (Hin & Hbl & Hsy). specialize (HS e Hin).
      destruct e as [b0 c0]. cbn [fst snd] in *. subst b0. destruct HS as (_ & _ & Hch & Hnc). unfold SameAxes. auto.
    + rewrite map_map in Em'. rewrite Em in Em'. inversion Em'; subst m. cbn [mc_px mk_cool] in Ec.
      rewrite Ec in Ec'. inversion Ec'; subst c'. unfold EntryOK. auto.
  - (* coarsen *)
    rewrite Forall_forall in HS. pose proof (HS _ Hin) as He.
    destruct (coarsen_valid blocks c0 k cs bs He Hk Hcs Hbs) as (_ & _ & c' & Ec' & He' & _).
    unfold chroms_of_blocks in Ec. rewrite Ec in Ec'. inversion Ec'; subst c'. exact He'.
Qed.

(** C02 over histories, with no hypothesis about the producers: every collection written along any
    sequence of create / unordered-create / merge / coarsen (zoom level) operations, starting from
    nothing, is a valid collection over a valid bin table *)
Theorem history_valid_all st0 st : Forall EntryOK st0 -> Steps st0 st -> Forall EntryOK st.
Proof. intros H0 HS. induction HS as [|st st' st'' H1 _ IH]; [exact H0|]. apply IH. eapply step_valid; eauto. Qed.

Corollary history_from_nothing st : Steps [] st -> Forall (fun e => ValidCSR (snd e)) st.
Proof.
  intros HS. pose proof (history_valid_all [] st (Forall_nil _) HS) as H.
  eapply Forall_impl; [|exact H]. intros [b c] He. now destruct He as (_ & Hv & _).
Qed.

(** executable form of the chunk precondition *)
Definition goodchunk_b (n : nat) (symm : bool) (o : copts) (ch : list pixel) : bool :=
  inrange_b (Z.of_nat n) ch && (if symm then upper_b ch else true)
  && (negb (o_dup o) || negb (has_dup ch)) && (o_sort o || nondecr_b (map MergeProofs.rowof ch)).
Lemma goodchunk_b_sound n symm o ch : goodchunk_b n symm o ch = true -> GoodChunk n symm o ch.
Proof.
  unfold goodchunk_b, GoodChunk. rewrite !andb_true_iff, !orb_true_iff, inrange_b_spec, nondecr_b_spec.
  intros (((Hr & Hu) & Hd) & Hs). split; [|split].
  - intros p Hp. split; [now apply Hr|]. intros ->. rewrite upper_b_spec in Hu. now apply Hu.
  - intros Hdup. destruct Hd as [Hd|Hd]; [rewrite Hdup in Hd; discriminate|]. now destruct (has_dup ch).
  - exact Hs.
Qed.

(* ------------------------------------------------------------------ non-vacuity: a concrete history *)

Definition force (o : option Index.cooler) : Index.cooler :=
  match o with Some c => c | None => mkCooler 0 0 [] [] [] [] [] [] 0 0 true end.
Definition force_m (r : res (mcool Z)) : mcool Z :=
  match r with Ok m => m | Err _ => {| mc_off := []; mc_px := [] |} end.

Definition hx_blocks : list (list bin) := [[(0,0,10);(0,10,20);(0,20,25)]; [(1,0,7)]].
Definition hx_chunks1 : list (list pixel) := [[((0,0),1); ((0,2),3)]; []; [((3,3),4)]].
Definition hx_chunks2 : list (list pixel) := [[((2,3),1); ((3,3),1)]; [((0,1),5); ((2,3),2)]; []].
Definition hx_o : copts := {| o_bounds := true; o_triu := true; o_dup := true; o_sort := false |}.
Definition hx_c1 : Index.cooler :=
  Eval vm_compute in force (create_chunked 2 (chroms_of_blocks hx_blocks) hx_chunks1 true).
Definition hx_m2 : mcool Z :=
  Eval vm_compute in force_m (unordered_g 4 hx_o (fun _ => true) sumZ hx_chunks2 1 (unordered_edges 3 1)).
Definition hx_c2 : Index.cooler :=
  Eval vm_compute in force (create_model 2 (chroms_of_blocks hx_blocks) (mc_px hx_m2) true).
Definition hx_m3 : mcool Z :=
  Eval vm_compute in force_m (merge_g 4 hx_o (fun _ => true) sumZ [of_csr hx_c1; of_csr hx_c2] 2).
Definition hx_c3 : Index.cooler :=
  Eval vm_compute in force (create_model 2 (chroms_of_blocks hx_blocks) (mc_px hx_m3) true).
Definition hx_c4 : Index.cooler :=
  Eval vm_compute in force (create_model 2 (chroms_of_blocks (map (coarsen_block 2) hx_blocks))
     (snd (coarsen_cooler (concat hx_blocks) (map chrom_end hx_blocks) (pixels_of hx_c3) 2 1 1)) true).

(** create -> unordered create -> merge of the two -> coarsen of the merge: a history of length 4 exists,
    its last collection holds the coarsened merged matrix and passes the executable checker *)
Lemma history_example :
  Steps [] [(hx_blocks, hx_c1); (hx_blocks, hx_c2); (hx_blocks, hx_c3); (map (coarsen_block 2) hx_blocks, hx_c4)] /\
  pixels_of hx_c3 = [((0,0),1); ((0,1),5); ((0,2),3); ((2,3),3); ((3,3),5)] /\
  pixels_of hx_c4 = [((0,0),6); ((0,1),3); ((1,2),3); ((2,2),5)] /\
  valid_csr_b hx_c4 = true.
Proof.
  split; [|vm_compute; repeat split; reflexivity].
  eapply Steps_cons.
  { apply (S_create [] hx_blocks true hx_chunks1 hx_c1).
    - apply valid_blocks_b_sound. reflexivity.
    - apply ssorted_b_spec. reflexivity.
    - apply inrange_b_spec. reflexivity.
    - intros _. apply upper_b_spec. reflexivity.
    - reflexivity. }
  eapply Steps_cons.
  { apply (S_unordered _ hx_blocks true hx_o hx_chunks2 1 1 hx_m2 hx_c2).
    - apply valid_blocks_b_sound. reflexivity.
    - discriminate.
    - discriminate.
    - lia.
    - reflexivity.
    - repeat (constructor; [apply goodchunk_b_sound; reflexivity|]). constructor.
    - reflexivity.
    - reflexivity. }
  eapply Steps_cons.
  { apply (S_merge _ hx_blocks true [(hx_blocks, hx_c1); (hx_blocks, hx_c2)] 2 hx_m3 hx_c3).
    - discriminate.
    - discriminate.
    - lia.
    - constructor; [split; [left; reflexivity|split; reflexivity]|].
      constructor; [split; [right; left; reflexivity|split; reflexivity]|]. constructor.
    - reflexivity.
    - reflexivity. }
  eapply Steps_cons.
  { apply (S_coarsen _ hx_blocks hx_c3 2 1 1 hx_c4); try lia.
    - cbn. auto.
    - reflexivity. }
  apply Steps_nil.
Qed.

(* ------------------------------------------------------------------ (4) zoomify levels *)
From Cooler Require Model.Zoom Proofs.ZoomProofs.

(** what zoomify reads of / writes for a history entry *)
Definition as_zoom (e : entry) : Zoom.cooler := (concat (fst e), map chrom_end (fst e), pixels_of (snd e)).

Lemma entry_validcooler e : EntryOK e -> ZoomProofs.ValidCooler (as_zoom e).
Proof.
  destruct e as [blocks c]. intros (HB & Hv & Hch & Hnc). exists blocks. unfold as_zoom. cbn.
  split; [reflexivity|]. split; [exact HB|]. split; [reflexivity|].
  destruct Hv as (_ & _ & _ & Hs & Hr & _ & _ & Lc & _).
  split; [apply CoarsenProofs.ssorted_rowsorted; exact Hs|].
  unfold InRange. rewrite Forall_forall. intros p Hp.
  assert (Hnb : nbins c = zlen (concat blocks)) by (rewrite <- Lc, Hch; apply zlen_map).
  rewrite <- Hnb. now apply Hr.
Qed.

(** every level zoomify_cooler writes from valid base collections is a base copied as it is, or what one
    coarsen step of the history stores for a base — hence a valid collection (C09_zoom_level_eq_direct +
    coarsen_valid) *)
Theorem zoom_levels_valid (ebases : list (Z * entry)) res cs bs lv :
  1 <= cs -> 1 <= bs -> ZoomProofs.Positive res -> ZoomProofs.Positive (map fst ebases) ->
  Forall (fun be => EntryOK (snd be)) ebases ->
  Zoom.zoomify_cooler (map (fun be => (fst be, as_zoom (snd be))) ebases) res cs bs = Some lv ->
  forall r zc, Zoom.lookup r lv = Some zc ->
    exists e, EntryOK e /\ zc = as_zoom e /\
      ((exists b, In (b, e) ebases) \/
       (exists b e0 k, In (b, e0) ebases /\ 2 <= k /\ r = b * k /\ Step [e0] ([e0] ++ [e]))).
Proof.
  intros Hcs Hbs Hres Hbpos HE Hz r zc Hl.
  set (bases := map (fun be => (fst be, as_zoom (snd be))) ebases) in *.
  assert (Hfst : map fst bases = map fst ebases) by (unfold bases; rewrite map_map; reflexivity).
  assert (Hin : forall b c, In (b, c) bases -> exists e, In (b, e) ebases /\ c = as_zoom e /\ EntryOK e).
  { intros b c Hc. unfold bases in Hc. apply in_map_iff in Hc. destruct Hc as ([b' e] & E & Hbe). inversion E; subst.
    exists e. split; [exact Hbe|]. split; [reflexivity|]. rewrite Forall_forall in HE. apply (HE _ Hbe). }
  assert (Hvalid : forall b c, In (b, c) bases -> ZoomProofs.ValidCooler c).
  { intros b c Hc. destruct (Hin b c Hc) as (e & _ & -> & He). now apply entry_validcooler. }
  rewrite <- Hfst in Hbpos.
  destruct (ZoomProofs.zoom_level_eq_direct bases res cs bs Hcs Hbs Hres Hbpos Hvalid) as (H1 & _).
  destruct (H1 lv Hz) as (_ & _ & H3). destruct (H3 r zc Hl) as (Hd & _).
  assert (Hbd : forall b c, Zoom.lookup b (Zoom.base_dict bases) = Some c -> In (b, c) bases).
  { intros b c H. apply ZoomProofs.lookup_in in H. unfold Zoom.base_dict in H. now apply in_rev in H. }
  destruct Hd as [(_ & Hb)|(_ & b & cb & k & _ & Hb & Hk & Hr & Hc)].
  - apply Hbd in Hb. destruct (Hin r zc Hb) as (e & Hbe & -> & He). exists e. split; [exact He|]. split; [reflexivity|].
    left. eauto.
  - apply Hbd in Hb. destruct (Hin b cb Hb) as ([blocks c0] & Hbe & -> & He).
    destruct (coarsen_valid blocks c0 k cs bs He ltac:(lia) Hcs Hbs) as (E1 & _ & c' & Ec & He' & Hp' & _).
    exists (map (coarsen_block k) blocks, c'). split; [exact He'|]. split.
    + rewrite (Hc cs bs Hcs Hbs). unfold Zoom.coarsen_c, as_zoom, Zoom.c_bins, Zoom.c_sizes, Zoom.c_px. cbn [fst snd].
      destruct He as (HB & _). destruct (coarsen_bins_spec blocks k ltac:(lia) HB) as (_ & _ & Hends & _).
      cbn [coarsen_cooler fst snd] in *. rewrite E1, Hends, Hp'. reflexivity.
    + right. exists b, (blocks, c0), k. split; [exact Hbe|]. split; [exact Hk|]. split; [exact Hr|].
      apply (S_coarsen [(blocks, c0)] blocks c0 k cs bs c'); try lia; [now left|exact Ec].
Qed.
