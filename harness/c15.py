"""C15 — file-level operations preserve content and touch nothing else.

Correspondence: histories of create(a|w) / fileops.cp / mv / ln (hard, soft, external) /
overwrite / re-create (+ an unrelated attribute set with raw h5py) over two files are run on
the real code (API and CLI, URIs with and without the leading slash) and on the Gallina model
of the HDF5 object store (coq/Model/H5.v); after every operation the outcome class, the raw
link tree of both files (h5py link level, object identities), list_coolers and is_cooler on a
fixed probe set are compared, at the end the full tree with every dataset payload.

Property oracle (independent of cooler for its expected values): bookkeeping, through an
own component-by-component path resolution over h5py's link-level API, of which path holds
which content before and after each operation; rules R1..R5 below are the property text.
"""
from __future__ import annotations

import json
import multiprocessing as mp
import os
import random
import re
import shutil
import tempfile

import coqio as C
import gen_c15 as G

PROP = "C15"
RULE = ("seeded random histories of <=6 operations over two files from {create(a|w) at /,/x,/c2/y,/z; cp; mv; ln hard/soft/external; "
        "overwrite flag; re-create; unrelated root/group attribute}, sources drawn from the collections existing at that point "
        "(second stream: arbitrary, mostly missing, sources), API and CLI, URIs with/without leading slash, plus a fixed corpus "
        "(known findings D14a-c, fixed D5, root-destination, aliasing, move-into-subtree cases); non-trivial = history with >=2 "
        "operations of which at least one is cp/mv/ln succeeding; distinct by op list")
TRUSTED = ["h5py/HDF5 link-level API (Group.get(getlink=True), h5o.get_info addresses) is used for raw observation and by the oracle's own path resolution",
           "HDF5 semantics (link creation with intermediate groups, H5Ocopy, unlink, external link traversal) are modelled by the object store and validated only by the correspondence run"]
ASSUMPTIONS = ["exception classes raised by h5py for the modelled failures are those observed with h5py 3.16 / HDF5 as installed",
               "HDF5's limit of 16 soft/external link traversals per lookup is modelled as a step budget of 64 (no history of the explored length builds a legitimate chain in between)"]
RESIDUE = ["HDF5's own semantics are modelled, not verified", "external links are explored from file B into file A only (mutual external links hit HDF5 file-handle conflicts outside the model)", "file truncation by overwrite=True is the documented behaviour and is modelled as such",
           "concurrent access / locking is not modelled"]

PATHS = ["/", "/c2", "/c2/y", "/c10"]
PROBES = ["/", "/c2", "/c2/y", "/c10", "/c10/y", "/c2/c2", "/c2/y/y", "/c2/y/c2", "/nope", "/c2/nope", "/c2/bins", "/c2/pixels/count",
          "/y", "/e", "/a", "/a/b"]
STD_ATTRS = ("bin-size", "bin-type", "format", "format-version", "genome-assembly", "metadata", "nbins", "nchroms",
             "nnz", "storage-mode", "sum")

SIG_CYCLE = "hardlink-cycle-listing"
SIG_EXT = "external-link-listed-under-target-path"
SIG_DANGLING = "dangling-link-listing-raises"
SIG_MV_SUBTREE = "mv-into-own-subtree-loses-collection"
SIG_MV_ROOT = "mv-of-root-collection-fails-and-leaves-hardlink"
SIG_SOFT_BEHIND_EXT = "soft-link-created-behind-external-link"
SIG_ROOT_PARTIAL = "cp-onto-root-fails-midway-partial-copy"


# ------------------------------------------------------------------ natural sort (own reading)
def natkey(s):
    return [int(t) if t.isdigit() else t for t in re.split(r"(\d+)", s)]


# ------------------------------------------------------------------ snapshots for the oracle
def snapshot(d):
    rw = G.RawWorld(d)
    snap = {"exists": {f: f in rw.h for f in G.FILES}, "dig": {}, "extra": {}, "slots": {}, "ident": {}, "status": {},
            "flags": {}, "root": {}, "allcoll": {}, "keys": {}, "sym": {}, "linked": {}}
    try:
        for f in G.FILES:
            snap["flags"][f] = rw.graph_flags(f)
            snap["root"][f] = rw.ident(f, rw.h[f]["/"]) if f in rw.h else None
            for q in PROBES:
                st, f1, o, slots = rw.walk(f, q)
                snap["status"][(f, q)] = st
                snap["sym"][(f, q)] = rw.last_sym
                # is there a link of that name at all (possibly dangling) in the parent group?
                cq = G.comps(q)
                linked = bool(cq) and False
                if cq:
                    stp, fp_, op_, _ = rw.walk(f, cq[:-1])
                    linked = stp == "ok" and hasattr(op_, "get") and hasattr(op_, "keys") and op_.get(cq[-1], getlink=True) is not None
                snap["linked"][(f, q)] = linked
                snap["slots"][(f, q)] = slots
                snap["ident"][(f, q)] = rw.ident(f1, o) if st == "ok" else None
                dg = rw.digest(f, q)
                if dg is not None:
                    extra = [a for a in dg["attrs"] if a[0] not in STD_ATTRS]
                    dg["attrs"] = [a for a in dg["attrs"] if a[0] in STD_ATTRS]
                else:
                    extra = None
                    if st == "ok" and hasattr(o, "attrs"):
                        extra = [a for a in G._attrs(o) if a[0] not in STD_ATTRS]
                snap["dig"][(f, q)] = dg
                snap["extra"][(f, q)] = extra
                snap["keys"][(f, q)] = sorted(o.keys()) if st == "ok" and hasattr(o, "keys") else None
            snap["allcoll"][f] = all_collections(rw, f) if not snap["flags"][f]["cycle"] else None
    finally:
        rw.close()
    return snap


def all_collections(rw, f, depth=7):
    """every path (sequence of link names, links followed) that holds a collection; acyclic files only"""
    if f not in rw.h:
        return None
    out = set()
    if rw.is_collection(f, []):
        out.add("/")

    def rec(pre, d):
        st, f1, o, _ = rw.walk(f, pre)
        if st != "ok" or not hasattr(o, "keys") or d == 0:
            return
        for k in o.keys():
            p = pre + [k]
            if rw.is_collection(f, p):
                out.add(G.pstr(p))
            rec(p, d - 1)
    rec([], depth)
    return sorted(out, key=natkey)


# ------------------------------------------------------------------ the oracle (rules of the property text)
def is_prefix(a, b):
    return len(a) <= len(b) and b[:len(a)] == a


def oracle_step(d, op, outcome, S0, S1, listing, iscool):
    """returns a list of (detail, signature) property failures for this step"""
    fails = []
    ok = outcome == "Ok"
    kind = op["op"]

    # R3 listing = exactly the collections held
    for f in G.FILES:
        if not S1["exists"][f]:
            continue
        lo, lv = listing[f]
        fl = S1["flags"][f]
        sig = SIG_CYCLE if fl["cycle"] else SIG_DANGLING if fl["dangling"] else SIG_EXT if fl["external"] else None
        if fl["cycle"]:
            if lo != "Ok":
                fails.append(({"rule": "R3 listing", "file": f, "listing": lo, "why": "link cycle: no finite exact listing"}, sig))
            continue
        exp = S1["allcoll"][f]
        if lo != "Ok" or lv != exp:
            fails.append(({"rule": "R3 listing", "file": f, "listing": [lo, lv], "expected": exp}, sig))

    # R4 recognition: true exactly on collections, false (not an error) elsewhere
    for f in G.FILES:
        for q in PROBES:
            exp = S1["dig"][(f, q)] is not None
            got = iscool[f][q]
            if got != exp:
                fails.append(({"rule": "R4 is_cooler", "file": f, "path": q, "got": got, "expected": exp}, None))

    # which slots may legitimately change
    exempt = set()
    exempt_obj = set()      # paths resolving to these objects may change (root destinations)
    trunc = None
    if kind == "create":
        f, p = op["f"], G.comps(op["p"])
        if op["mode"] == "w":
            trunc = f
        if ok:
            if p:
                par = S0["ident"].get((f, G.pstr(p[:-1]))) or S1["ident"].get((f, G.pstr(p[:-1])))
                if par:
                    exempt.add(par + (p[-1],))
            elif S1["root"][f]:
                exempt_obj.add(S1["root"][f])
    elif kind in ("cp", "mv", "ln", "lns", "_copy"):
        sf, sp, df, dp = op["sf"], G.comps(op["sp"]), op["df"], G.comps(op["dp"])
        if op.get("ow") and sf != df and S0["exists"][sf]:
            trunc = df
        if ok:
            if dp:
                par = S0["ident"].get((df, G.pstr(dp[:-1]))) or S1["ident"].get((df, G.pstr(dp[:-1])))
                if par:
                    exempt.add(par + (dp[-1],))
            elif S1["root"][df]:
                exempt_obj.add(S1["root"][df])
                for n in (S0["keys"].get((sf, G.pstr(sp))) or []):
                    exempt.add(S1["root"][df] + (n,))
            link, rename, soft = G.op_flags(op)
            if rename and sf == df and sp:
                par0 = S0["ident"].get((sf, G.pstr(sp[:-1])))
                if par0:
                    exempt.add(par0 + (sp[-1],))
    elif kind == "setattr":
        if ok:
            tgt = S1["ident"].get((op["f"], G.pstr(G.comps(op["p"]))))
            if tgt:
                exempt_obj.add(tgt)

    # R2 / R5 frame: everything else reads as before
    for f in G.FILES:
        for q in PROBES:
            key = (f, q)
            before = (S0["dig"][key], S0["extra"][key] or [])
            after = (S1["dig"][key], S1["extra"][key] or [])
            slots = S0["slots"][key] | S1["slots"][key]
            touches_trunc = trunc is not None and (f == trunc or any(s[0] == trunc for s in slots))
            if touches_trunc:
                if ok and f == trunc and not (slots & exempt) and S1["ident"][key] not in exempt_obj and S1["dig"][key] is not None:
                    fails.append(({"rule": "R5 write mode replaces the file", "file": f, "path": q}, None))
                continue
            if before == after:
                continue
            if (slots & exempt) or (S1["ident"][key] is not None and S1["ident"][key] in exempt_obj):
                continue
            sig = None
            if kind == "mv" and op["sf"] == op["df"] and not G.comps(op["sp"]):
                sig = SIG_MV_ROOT
            if not ok and f == op.get("df") and root_copy_fails_midway(op, S0):
                sig = SIG_ROOT_PARTIAL
            fails.append(({"rule": "R2 frame: a path outside the destination changed" if ok else "R2 frame: a failed operation changed a path",
                           "file": f, "path": q, "before": _brief(before), "after": _brief(after)}, sig))

    # R0 a well-formed request is carried out: the source is a collection reached without crossing a
    # soft/external link, the destination name is free and its parent either exists (again without
    # crossing a link) or is missing altogether, hard links stay inside one file, no overwrite
    if kind in ("cp", "mv", "ln", "lns") and not ok:
        sf, sp, df, dp = op["sf"], G.pstr(G.comps(op["sp"])), op["df"], G.pstr(G.comps(op["dp"]))
        par = G.pstr(G.comps(dp)[:-1])
        pre = (S0["dig"].get((sf, sp)) is not None and not S0["sym"].get((sf, sp), True)
               and G.comps(dp) and S0["status"].get((df, dp)) == "missing" and not S0["linked"].get((df, dp), True)
               and (par, S0["status"].get((df, par)), S0["sym"].get((df, par))) in
                   ((par, "ok", False), ("/a", "missing", False), ("/c2", "missing", False))
               and not op.get("ow") and (kind != "ln" or sf == df)
               and not (kind == "mv" and sf == df and not G.comps(sp))
               and (S0["exists"][df] or sf != df))
        if pre and S0["status"].get((df, par)) == "ok" and S0["keys"].get((df, par)) is None:
            pre = False       # the parent is a dataset
        if pre:
            fails.append(({"rule": "R0 a well-formed operation was refused", "outcome": outcome, "src": [sf, sp], "dst": [df, dp]}, None))

    # R1 destination reads as the source
    if ok and kind in ("cp", "mv", "ln", "lns"):
        sf, sp, df, dp = op["sf"], G.pstr(G.comps(op["sp"])), op["df"], G.pstr(G.comps(op["dp"]))
        src0 = S0["dig"].get((sf, sp))
        src_in_trunc = trunc is not None and any(sl[0] == trunc for sl in S0["slots"].get((sf, sp), ()))
        if src0 is not None and (df, dp) in S1["dig"] and not src_in_trunc:
            dst1 = S1["dig"][(df, dp)]
            if dst1 != src0:
                sig = None
                if kind == "mv" and sf == df and G.comps(sp):
                    # the destination lies inside the moved group itself (by name, or through a link to it)
                    sid = S0["ident"].get((sf, sp))
                    pc = G.comps(dp)[:-1]
                    inside = is_prefix(G.comps(sp), G.comps(dp)) or any(
                        S0["ident"].get((df, G.pstr(pc[:i]))) == sid for i in range(len(pc) + 1))
                    if inside:
                        sig = SIG_MV_SUBTREE
                par_slots = S0["slots"].get((df, G.pstr(G.comps(dp)[:-1])), ())
                if kind == "lns" and sf == df and any(sl[0] != df for sl in par_slots):
                    sig = SIG_SOFT_BEHIND_EXT
                fails.append(({"rule": "R1 destination does not read as the source", "dst": [df, dp], "src": [sf, sp],
                               "dst_after": _brief((dst1, None)), "src_before": _brief((src0, None))}, sig))
            else:
                k = src0["pixels"]["count"][1][0] - 1 if src0.get("pixels") and isinstance(src0["pixels"].get("count"), list) else None
                if k is not None:
                    api = api_read(d, df, dp)
                    if api != api_expected(k):
                        fails.append(({"rule": "R1 destination does not read as the source through cooler.Cooler", "dst": [df, dp],
                                       "got": api, "expected_stamp": k}, None))
            if kind == "cp" and S1["ident"][(df, dp)] is not None and S1["ident"][(df, dp)] == S1["ident"].get((sf, sp)):
                fails.append(({"rule": "R1 a copy shares its object with the source", "dst": [df, dp], "src": [sf, sp]}, None))
            if kind == "ln" and S1["ident"][(df, dp)] != S1["ident"].get((sf, sp)):
                fails.append(({"rule": "R1 hard link is not the same object", "dst": [df, dp], "src": [sf, sp]}, None))
            if kind in ("cp", "ln", "lns") and trunc is None:
                if S1["dig"].get((sf, sp)) != src0:
                    fails.append(({"rule": "R1 source changed by cp/ln", "src": [sf, sp]}, None))
            if kind == "mv" and sf == df and S1["dig"].get((sf, sp)) is not None and sp != dp:
                fails.append(({"rule": "R1 source still bound after mv", "src": [sf, sp]}, None))

    # R5 a created collection holds exactly what was given
    if ok and kind == "create":
        f, p = op["f"], G.pstr(G.comps(op["p"]))
        t, a = G.expected_tables(op["k"])
        exp = {"attrs": [[k, ["I", v] if isinstance(v, int) else ["S", v]] for k, v in sorted(a.items(), key=lambda kv: kv[0].encode())]}
        for tn, cols in t.items():
            exp[tn] = {c: ([pl[0], pl[1]] if pl[0] != "E" else ["E", pl[1], pl[2]]) for c, pl in sorted(cols.items())}
        got = S1["dig"].get((f, p))
        if got != exp:
            fails.append(({"rule": "R5 created collection does not hold the given tables", "file": f, "path": p, "got": _brief((got, None))}, None))
        elif api_read(d, f, p) != api_expected(op["k"]):
            fails.append(({"rule": "R5 created collection does not read back through cooler.Cooler", "file": f, "path": p}, None))
    return fails


def root_copy_fails_midway(op, S0):
    """input-decided predicate of finding D29: a cross-file copy (cp, or mv which copies across files) without
    overwrite onto the ROOT of an existing file whose root already has a member named like a member of the
    source group, while another member of the source sorts before it (members are copied one by one in name
    order, so the copy fails midway and the earlier members stay)"""
    if op["op"] not in ("cp", "mv") or op["sf"] == op["df"] or op.get("ow") or G.comps(op["dp"]):
        return False
    src = S0["keys"].get((op["sf"], G.pstr(G.comps(op["sp"]))))
    dst = S0["keys"].get((op["df"], "/"))
    if not src or not dst:
        return False
    src = sorted(src, key=lambda k: k.encode())
    common = [k for k in src if k in dst]
    return bool(common) and src.index(common[0]) > 0


def _brief(x):
    dg, extra = x
    if dg is None:
        return {"collection": False, "extra": extra}
    px = dg.get("pixels") or {}
    return {"collection": True, "count": px.get("count"), "attrs_nnz": [a for a in dg["attrs"] if a[0] in ("nnz", "sum")], "extra": extra}


def api_read(d, f, p):
    """the ordinary interface: cooler.Cooler(uri) tables"""
    import cooler

    def _r():
        c = cooler.Cooler(G.uri(d, f, p))
        b = c.bins()[:]
        px = c.pixels()[:]
        ch = c.chroms()[:]
        return {"chroms": [[str(n), int(l)] for n, l in zip(ch["name"], ch["length"])],
                "bins": [[str(a), int(s), int(e)] for a, s, e in zip(b["chrom"], b["start"], b["end"])],
                "pixels": [[int(a), int(b_), int(v)] for a, b_, v in zip(px["bin1_id"], px["bin2_id"], px["count"])],
                "nnz": int(c.info["nnz"]), "sum": int(c.info["sum"])}
    o, v = G.guarded(_r)
    return v if o == "Ok" else "unreadable:" + o


def api_expected(k):
    b = G.bins_df()
    px = G.pixels_rows(k)
    return {"chroms": [[n, L] for n, L in G.CHROMS],
            "bins": [[str(a), int(s), int(e)] for a, s, e in zip(b["chrom"], b["start"], b["end"])],
            "pixels": [list(r) for r in px], "nnz": len(px), "sum": sum(r[2] for r in px)}


# ------------------------------------------------------------------ observation of the real code
def observe_impl(d, full=False):
    from cooler import fileops
    obs = {}
    for f in G.FILES:
        fn = G.faddr(d, f)
        dump = G.canon_dump(light_dump(G.raw_dump(d, f, 3)))
        o, v = G.guarded(shallow_stack, fileops.list_coolers, fn)
        listing = [o, v if o == "Ok" else []]
        ic = {}
        for q in PROBES:
            o2, v2 = G.guarded(fileops.is_cooler, G.uri(d, f, q))
            ic[q] = (bool(v2) if o2 == "Ok" else o2)
        obs[f] = {"dump": dump, "listing": listing, "is_cooler": ic}
        lay = G._LAYOUTS.get(d)
        if lay and lay.get("cli_obs") and os.path.exists(G.fpath(d, f)):
            obs[f]["cli"] = cli_listing(fn, listing)
    return obs


def cli_listing(fn, listing):
    """`cooler ls` and `cooler tree` on the (relative) file name must agree with list_coolers"""
    from click.testing import CliRunner
    from cooler.cli import cli
    out = []

    def run_cli(args):
        r = CliRunner().invoke(cli, args)
        return r.exit_code, r.output
    o, v = G.guarded(shallow_stack, run_cli, ["ls", fn])
    if listing[0] == "Ok":
        exp = [fn + "::" + p_ for p_ in listing[1]]
        if o != "Ok" or v[0] != 0 or v[1].split("\n")[:-1] != exp:
            out.append({"rule": "L `cooler ls` differs from list_coolers", "got": (v[1][:300] if o == "Ok" else o), "expected": exp})
        o2, v2 = G.guarded(shallow_stack, run_cli, ["tree", fn])
        if o2 != "Ok" or v2[0] != 0:
            out.append({"rule": "L `cooler tree` fails on a file that list_coolers can traverse", "got": (v2[0] if o2 == "Ok" else o2)})
    elif o == "Ok" and v[0] == 0:
        out.append({"rule": "L `cooler ls` succeeds where list_coolers raises", "listing": listing[0]})
    return out


def shallow_stack(fn, *a):
    """call fn with the interpreter's recursion limit lowered to ~90 frames above the current depth:
    a traversal that recurses without end raises the same RecursionError, only sooner (on a link cycle
    the default limit of 1000 lets the traversal visit tens of thousands of nodes first)"""
    import inspect
    import sys
    old = sys.getrecursionlimit()
    depth = len(inspect.stack(0))
    sys.setrecursionlimit(depth + 90)
    try:
        return fn(*a)
    finally:
        sys.setrecursionlimit(old)


def light_dump(entries):
    if entries is None:
        return None
    out = []
    for p, e in entries:
        if e[0] == "G":
            out.append([p, ["G", e[1], [a for a in e[2] if a[0] == "format"]]])
        elif e[0] == "D":
            out.append([p, ["D", e[1], ["I", []]]])
        else:
            out.append([p, e])
    return out


# ------------------------------------------------------------------ history generation (interleaved with execution)
def existing_collections(S):
    out = []
    for f in G.FILES:
        for q in PATHS:
            if S["dig"].get((f, q)) is not None:
                out.append((f, q))
    return out


def gen_op(rng, S, step, stream):
    """one operation given the current (observed) state"""
    colls = existing_collections(S)
    if step == 0 or not colls:
        f = rng.choice(G.FILES)
        return {"op": "create", "f": f, "p": rng.choice(PATHS), "mode": rng.choice(["a", "a", "w"]), "k": rng.randrange(20),
                "s1": rng.random() < 0.5}
    r = rng.random()
    if r < 0.27:
        return {"op": "create", "f": rng.choice(G.FILES), "p": rng.choice(PATHS), "mode": "w" if rng.random() < 0.15 else "a",
                "k": rng.randrange(20), "s1": rng.random() < 0.5,
                "via": rng.choice(["create_cooler"] * 11 + ["create"] * 7 + ["unordered", "cc_unordered"]),
                "how": rng.choice(["mode", "append", "append", "default"])}
    if r < 0.32:
        f, q = rng.choice(colls)
        tgt = rng.choice(["/", q])
        if S["dig"].get((f, tgt)) is None and S["status"].get((f, tgt)) == "ok" and rng.random() < 0.5:
            # a group that is not a collection gets some other format tag (as multi-resolution / single-cell roots have)
            return {"op": "setattr", "f": f, "p": tgt, "key": "format", "val": rng.choice(["HDF5::MCOOL", "HDF5::SCOOL"])}
        return {"op": "setattr", "f": f, "p": tgt, "key": rng.choice(["note", "lab"]), "val": rng.choice(["keep me", 7, "x"])}
    kind = rng.choice(["cp", "cp", "cp", "mv", "mv", "ln", "ln", "lns", "lns", "lns"])
    if stream == "missing" and rng.random() < 0.6:
        sf, sp = rng.choice(G.FILES), rng.choice(PATHS + ["/nope", "/c2/nope"])
    else:
        sf, sp = rng.choice(colls)
    same = rng.random() < (0.8 if kind in ("mv", "ln") else 0.5)
    df = sf if same else ("B" if sf == "A" else "A")
    if kind == "lns" and sf == "B":
        df = "B"      # external links are only made from file B into file A (mutual external links run into
        #               HDF5 file-handle conflicts that the store model does not describe)
    dp = rng.choice(PATHS)
    op = {"op": kind, "sf": sf, "sp": sp, "df": df, "dp": dp, "ow": rng.random() < 0.1,
          "s1": rng.random() < 0.5, "s2": rng.random() < 0.5}
    if rng.random() < 0.3:      # address the two files differently within one call
        op["a1"], op["a2"] = rng.choice(["abs", "rel", "dot"]), rng.choice(["abs", "rel", "dot"])
        # D39 (fixed): one file under two spellings within one call used to be handled as two files; regression
        # input: the spellings of source and destination are chosen independently also when they are the same file
    if rng.random() < 0.12:
        op["via"] = "cli"
    return op


DECOY_STAMP = 17
# D38 (fixed): a cross-file `ln -s` given a RELATIVE source path used to store that path as written, while HDF5
# resolves it relative to the directory of the file holding the link first; a decoy sitting exactly where that first
# resolution landed made the link read the decoy.  Regression input: such decoys ARE placed.
DECOY_WHERE_CWD_RELATIVE_LINK_LANDS = True


def make_layout(d, spec):
    """directories, working directory and decoys of one history"""
    kind = spec["kind"]
    if kind == "siblings":
        A, B, cwd = os.path.join(d, "da", "A.cool"), os.path.join(d, "db", "B.cool"), os.path.join(d, "work")
    elif kind == "nested":
        A, B, cwd = os.path.join(d, "A.cool"), os.path.join(d, "sub", "deep", "B.cool"), os.path.join(d, "other")
    elif kind == "up":
        A, B, cwd = os.path.join(d, "x", "y", "A.cool"), os.path.join(d, "x", "B.cool"), os.path.join(d, "x", "y", "z")
    else:
        A, B, cwd = os.path.join(d, "A.cool"), os.path.join(d, "B.cool"), os.path.join(d, "cw")
    for p_ in (os.path.dirname(A), os.path.dirname(B), cwd):
        os.makedirs(p_, exist_ok=True)
    lay = {"A": A, "B": B, "cwd": cwd, "addr": spec["addr"], "kind": kind, "cli_obs": bool(spec.get("cli_obs"))}
    if spec.get("decoys"):
        import cooler
        cands = {os.path.join(os.path.dirname(B), "A.cool"), os.path.join(os.path.dirname(A), "B.cool"),
                 os.path.join(cwd, "A.cool"), os.path.join(cwd, "B.cool")} - {A, B}
        for src, dst in ((A, B), (B, A)):
            # where a source name written relative to the cwd lands when read relative to the other file's directory
            spot = os.path.realpath(os.path.join(os.path.dirname(dst), os.path.relpath(src, cwd)))
            if DECOY_WHERE_CWD_RELATIVE_LINK_LANDS and spot not in (A, B) and spot.startswith(d + os.sep):
                os.makedirs(os.path.dirname(spot), exist_ok=True)
                cands.add(spot)
            elif not DECOY_WHERE_CWD_RELATIVE_LINK_LANDS:
                cands.discard(spot)
        tmpl = os.path.join(os.path.dirname(d), f"decoy_template_{os.getpid()}.cool")
        if not os.path.exists(tmpl):
            for grp in ("/", "/c2", "/c10"):
                cooler.create_cooler(tmpl + "::" + grp, G.bins_df(), G.pixels_df(DECOY_STAMP), mode="a")
        for c_ in sorted(cands):
            shutil.copyfile(tmpl, c_)
        lay["decoys"] = sorted(cands)
    return lay


_FROZEN = False


def _freeze_once():
    """move everything allocated by the imports out of the collector's way, so that the full collection
    after a failed operation (gen_c15.guarded) only scans what the operation itself left behind"""
    global _FROZEN
    if not _FROZEN:
        import gc
        import cooler  # noqa: F401
        from click.testing import CliRunner  # noqa: F401
        from cooler.cli import cli  # noqa: F401
        gc.collect()
        gc.freeze()
        _FROZEN = True


def decoys_untouched(lay):
    """the decoy files of the same base names elsewhere must not have been read into or written to"""
    import h5py
    bad = []
    for c_ in lay["decoys"]:
        try:
            with h5py.File(c_, "r") as h:
                ok = sorted(h.keys()) == ["bins", "c10", "c2", "chroms", "indexes", "pixels"] and \
                    [int(x) for x in h["pixels/count"][:]] == [r[2] for r in G.pixels_rows(DECOY_STAMP)] and \
                    sorted(h["c2"].keys()) == ["bins", "chroms", "indexes", "pixels"]
        except Exception as e:  # noqa: BLE001
            ok = False
        if not ok:
            bad.append(({"rule": "L a decoy file of the same base name was modified", "decoy": os.path.relpath(c_, lay["cwd"])}, None))
    return bad


def run_tail(d, tail):
    """after the history, in the same process and on the same paths: both files are deleted (every listing and
    predicate must see that), then one collection is created again at a path of file A and judged by the ordinary
    oracle for what is stored NOW (state carried over from the earlier calls would show here)"""
    from cooler import fileops
    fails = []
    for f in G.FILES:
        try:
            os.remove(G.fpath(d, f))
        except OSError:
            pass

    def preds(f):
        fn = G.faddr(d, f)
        out = {}
        for name, fun in (("is_scool_file", fileops.is_scool_file), ("is_multires_file", fileops.is_multires_file)):
            o, v = G.guarded(fun, fn)
            out[name] = bool(v) if o == "Ok" else o
        return out
    obs = observe_impl(d)
    for f in G.FILES:
        if obs[f]["listing"][0] != "EOS" or any(v is not False for v in obs[f]["is_cooler"].values()) \
                or preds(f) != {"is_scool_file": "EOS", "is_multires_file": False}:
            fails.append(({"rule": "T deleted file still answers", "file": f, "listing": obs[f]["listing"],
                           "is_cooler_true": [q for q, v in obs[f]["is_cooler"].items() if v is not False], "preds": preds(f)}, None))
    S0 = snapshot(d)
    op = {"op": "create", "f": "A", "p": tail["p"], "mode": "a", "k": tail["k"]}
    outcome = G.apply_op(d, op)
    obs = observe_impl(d)
    S1 = snapshot(d)
    for det, sig in oracle_step(d, op, outcome, S0, S1, {f: obs[f]["listing"] for f in G.FILES},
                                {f: obs[f]["is_cooler"] for f in G.FILES}):
        det["phase"] = "re-created after deletion"
        fails.append((det, sig))
    if outcome != "Ok":
        fails.append(({"rule": "T create after deletion refused", "outcome": outcome}, None))
    if preds("A") != {"is_scool_file": False, "is_multires_file": False}:
        fails.append(({"rule": "T a plain collection file taken for single-cell / multi-resolution", "preds": preds("A")}, None))
    return fails


def run_history(task):
    """worker: run (or generate-and-run) one history on the real code; returns ops, per-step
    observations and oracle failures"""
    import warnings
    warnings.filterwarnings("ignore")
    _freeze_once()
    base, hid, seed, ops_in, nops, stream = task[:6]
    tail = task[6] if len(task) > 6 else None
    layspec = task[7] if len(task) > 7 else None
    d = os.path.join(base, f"h{hid}")
    os.makedirs(d, exist_ok=True)
    old_cwd = os.getcwd()
    if layspec:
        lay = make_layout(d, layspec)
        G.set_layout(d, lay)
        os.chdir(lay["cwd"])
    rng = random.Random(seed)
    ops, steps, fails = [], [], []
    try:
        S0 = snapshot(d)
        n = len(ops_in) if ops_in is not None else nops
        for i in range(n):
            op = ops_in[i] if ops_in is not None else gen_op(rng, S0, i, stream)
            outcome = G.apply_op(d, op)
            obs = observe_impl(d)
            S1 = snapshot(d)
            fs = oracle_step(d, op, outcome, S0, S1, {f: obs[f]["listing"] for f in G.FILES},
                             {f: obs[f]["is_cooler"] for f in G.FILES})
            for det, sig in fs:
                det["step"] = i
                fails.append((det, sig))
            for f in G.FILES:
                for det in obs[f].pop("cli", []):
                    det["step"] = i
                    det["file"] = f
                    fails.append((det, None))
            ops.append(op)
            steps.append({"outcome": outcome, "obs": obs})
            S0 = S1
        final = {f: G.canon_dump(G.raw_dump(d, f, 5)) for f in G.FILES}
        tail_fails = run_tail(d, tail) if tail else []
        if layspec and lay.get("decoys"):
            tail_fails += decoys_untouched(lay)
    finally:
        os.chdir(old_cwd)
        G.clear_layout(d)
        shutil.rmtree(d, ignore_errors=True)
    return {"ops": ops, "steps": steps, "final": final, "fails": fails, "tail_fails": tail_fails}


# ------------------------------------------------------------------ the model side
IMPORTS = "From Cooler Require Import Model.H5."


def model_expr(ops):
    probes = C.lst([G.coq_path(q) for q in PROBES])
    return f"trace {probes} {C.lst([G.coq_op(o) for o in ops])}"


def model_view(val):
    """parsed Coq value of [trace] -> same shape as the implementation's record"""
    steps_v, final_v = val
    steps = []
    for e, obs in steps_v:
        o = {}
        for f, (dump, listing, ics) in zip(G.FILES, obs):
            lo, lv = listing
            o[f] = {"dump": G.canon_dump(G.model_dump(dump)),
                    "listing": [G.model_outcome(lo), sorted((G.pstr(p) for p in lv), key=natkey) if G.model_outcome(lo) == "Ok" else []],
                    "is_cooler": {q: G.model_tri(t) for q, t in zip(PROBES, ics)}}
        steps.append({"outcome": G.model_outcome(e), "obs": o})
    final = {f: G.canon_dump(G.model_dump(v)) for f, v in zip(G.FILES, final_v)}
    return {"steps": steps, "final": final}


def impl_view(rec):
    steps = []
    for s in rec["steps"]:
        o = {}
        for f in G.FILES:
            x = s["obs"][f]
            o[f] = {"dump": x["dump"], "listing": [x["listing"][0], list(x["listing"][1])], "is_cooler": dict(x["is_cooler"])}
        steps.append({"outcome": s["outcome"], "obs": o})
    return {"steps": steps, "final": rec["final"]}


def first_difference(iv, mv):
    for i, (a, b) in enumerate(zip(iv["steps"], mv["steps"])):
        if a["outcome"] != b["outcome"]:
            return {"step": i, "what": "outcome", "impl": a["outcome"], "model": b["outcome"]}
        for f in G.FILES:
            for key in ("dump", "listing", "is_cooler"):
                if a["obs"][f][key] != b["obs"][f][key]:
                    return {"step": i, "what": key, "file": f, "impl": a["obs"][f][key], "model": b["obs"][f][key]}
    for f in G.FILES:
        if iv["final"][f] != mv["final"][f]:
            return {"step": "final", "what": "full dump", "file": f, "impl": iv["final"][f], "model": mv["final"][f]}
    return None


# ------------------------------------------------------------------ corpus
def corpus():
    A, B = "A", "B"
    c = lambda f, p, k=1, mode="a": {"op": "create", "f": f, "p": p, "mode": mode, "k": k}  # noqa: E731
    o = lambda kind, sf, sp, df, dp, **kw: dict({"op": kind, "sf": sf, "sp": sp, "df": df, "dp": dp}, **kw)  # noqa: E731
    return [
        # known findings D14a, D14b, D14c (exercised on every run)
        ("D14a hard link to an ancestor", [c(A, "/", 1), o("ln", A, "/", A, "/a/b")]),
        ("D14a soft link to an ancestor", [c(A, "/c2", 2), o("lns", A, "/c2", A, "/c2/y")]),
        ("D14b external link", [c(A, "/c2", 3), o("lns", A, "/c2", B, "/e")]),
        ("D14c dangling soft link after mv", [c(A, "/c2", 4), o("lns", A, "/c2", A, "/y"), o("mv", A, "/c2", A, "/c10")]),
        ("D14c dangling external link after re-create w", [c(A, "/c2", 5), o("lns", A, "/c2", B, "/c2"), c(A, "/c10", 6, "w")]),
        # fixed D25: is_cooler on a dangling soft link / below a soft link whose target path has a missing component / below a loop
        ("D25 regression: is_cooler on and below unresolvable links",
         [c(A, "/c2/y", 4), o("lns", A, "/c2/y", A, "/c10"), o("mv", A, "/c2", A, "/a"), o("lns", A, "/c2", A, "/c2")]),
        ("soft link created below an external link lands in the other file",
         [c(A, "/c2/y", 4), c(B, "/c10", 5), o("lns", A, "/c2/y", B, "/c2"), o("lns", B, "/c10", B, "/c2/y")]),
        # fixed D5: is_cooler on non-existent paths is False (probes /nope, /c2/nope on every step)
        ("D5 regression", [c(A, "/c2", 7), c(B, "/", 8)]),
        # root destination, occupied destinations, cross-file hard link, overwrite
        ("cross-file cp to the root of a new file and again", [c(A, "/c2", 1), c(A, "/c2/y", 2), o("cp", A, "/c2", B, "/"), o("cp", A, "/c2", B, "/")]),
        ("cross-file cp to the root of a file that has /y", [c(A, "/c2", 1), c(A, "/c2/y", 2), c(B, "/y", 3), o("cp", A, "/c2", B, "/")]),
        # known finding D29: the member-by-member copy onto an occupied root fails midway (bins and /c10 stay in B)
        ("D29 cross-file cp onto a root that has a member of the same name", [c(A, "/", 1), c(A, "/c10", 2), c(B, "/c2", 3), o("lns", A, "/c10", A, "/c2"), o("cp", A, "/", B, "/")]),
        ("occupied destinations", [c(A, "/c2", 1), c(A, "/c10", 2), o("cp", A, "/c2", A, "/c10"), o("ln", A, "/c2", A, "/c10"), o("lns", A, "/c2", A, "/c10"), o("mv", A, "/c2", A, "/c10")]),
        ("cross-file hard link / overwrite", [c(A, "/c2", 1), c(B, "/c10", 2), o("ln", A, "/c2", B, "/y"), o("ln", A, "/c2", B, "/y", ow=True), o("cp", A, "/c2", B, "/y", ow=True)]),
        ("same-file overwrite", [c(A, "/c2", 1), o("cp", A, "/c2", A, "/c10", ow=True), o("mv", A, "/c2", A, "/c10", ow=True)]),
        ("more than one flag", [c(A, "/c2", 1), {"op": "_copy", "sf": A, "sp": "/c2", "df": A, "dp": "/c10", "link": True, "rename": True, "soft": False}]),
        ("aliasing: append-create below a hard-linked group", [c(A, "/c10", 1), o("ln", A, "/c10", A, "/c2"), c(A, "/c2/y", 2), o("mv", A, "/c2", A, "/c2/y")]),
        ("move into own subtree", [c(A, "/c2", 1), o("mv", A, "/c2", A, "/c2/y")]),
        ("move of the root collection", [c(A, "/", 1), o("mv", A, "/", A, "/c2")]),
        ("copy of root into itself, nested", [c(A, "/", 1), o("cp", A, "/", A, "/c2/y"), o("cp", A, "/c2", A, "/c10")]),
        ("re-create over links", [c(A, "/c10", 1), o("lns", A, "/c10", A, "/c2"), c(A, "/c2/y", 2), c(A, "/c2", 3), o("ln", A, "/c10", A, "/c2/y")]),
        ("re-create replaces nested, w truncates", [c(A, "/c2", 1), c(A, "/c2/y", 2), c(A, "/", 3), c(A, "/c2", 4), c(A, "/c10", 5, "w")]),
        ("a group tagged with another format is not a collection",
         [c(A, "/c2", 1), {"op": "setattr", "f": A, "p": "/", "key": "format", "val": "HDF5::MCOOL"}, o("cp", A, "/c2", A, "/c10")]),
        ("append / write mode through every creator and through the deprecated alias append=",
         [c(A, "/c2", 1), c(A, "/", 2), {"op": "setattr", "f": A, "p": "/", "key": "note", "val": "keep me"},
          dict(c(A, "/c10", 3), via="create", how="append"), dict(c(A, "/c2/y", 4), via="unordered", how="append"),
          dict(c(A, "/y", 5), via="cc_unordered", how="mode"), dict(c(A, "/c10", 6), via="create", how="mode"),
          dict(c(A, "/e", 7), via="unordered", how="mode"), dict(c(A, "/a/b", 8), via="create_cooler", how="mode")]),
        ("write mode: explicit, append=False and by default, through every creator",
         [c(A, "/c2", 1), dict(c(A, "/c10", 2, "w"), via="create", how="append"), c(A, "/c2", 3),
          dict(c(A, "/y", 4, "w"), via="unordered", how="default"), c(A, "/c2", 5), dict(c(A, "/c10", 6, "w"), via="create", how="default"),
          c(A, "/c2", 7), dict(c(A, "/", 8, "w"), via="cc_unordered", how="default"), c(A, "/c2", 9),
          dict(c(A, "/c10", 10, "w"), via="unordered", how="append"), c(A, "/y", 11), dict(c(A, "/c10", 12, "w"), via="create_cooler", how="default")]),
        ("unrelated attribute survives", [c(A, "/", 1), {"op": "setattr", "f": A, "p": "/", "key": "note", "val": "keep me"}, c(A, "/c2", 2), c(A, "/", 3), o("cp", A, "/c2", A, "/c10")]),
        ("missing sources", [c(A, "/c2", 1), o("cp", A, "/nope", A, "/c10"), o("mv", A, "/nope", A, "/c10"), o("ln", A, "/nope", A, "/c10"), o("cp", A, "/nope", B, "/c10"), o("cp", B, "/c2", A, "/c10")]),
        ("cli", [c(A, "/c2", 1), o("cp", A, "/c2", A, "/c10", via="cli"), o("mv", A, "/c10", A, "/c2/y", via="cli"), o("ln", A, "/c2", B, "/c2", via="cli"), o("lns", A, "/c2", B, "/c2", via="cli"), o("ln", A, "/c2", A, "/c10", via="cli", s1=False, s2=False)]),
    ]


def layout_corpus():
    """every link/copy kind across the two files plus append-create, run under every directory layout and addressing"""
    A, B = "A", "B"
    c = lambda f, p, k=1, mode="a": {"op": "create", "f": f, "p": p, "mode": mode, "k": k}  # noqa: E731
    o = lambda kind, sf, sp, df, dp, **kw: dict({"op": kind, "sf": sf, "sp": sp, "df": df, "dp": dp}, **kw)  # noqa: E731
    return [
        ("external link, copies and moves between files in different directories",
         [c(A, "/c2", 3), c(B, "/c10", 4), o("lns", A, "/c2", B, "/e"), o("cp", A, "/c2", B, "/c2"), o("mv", B, "/c10", A, "/c10"),
          c(A, "/c2/y", 5), o("lns", A, "/c2/y", B, "/y", via="cli"), o("cp", B, "/c2", A, "/y", via="cli")]),
        ("same-file links and a cross-file hard link refused, mixed addressing",
         [c(A, "/", 6), o("ln", A, "/", A, "/c10", a1="rel", a2="abs"), o("lns", A, "/c10", A, "/y", a1="dot", a2="rel"),
          o("ln", A, "/", B, "/c2", a1="abs", a2="dot"), o("mv", A, "/c10", A, "/c2", via="cli", a1="rel", a2="dot"),
          o("cp", A, "/c2", A, "/c10", a1="abs", a2="dot"), o("cp", A, "/", A, "/c2", ow=True, a1="rel", a2="abs")]),
        ("D38 regression: relative source of an external link with a decoy where the cwd-relative name would land",
         [c(A, "/c2", 1), o("lns", A, "/c2", B, "/e", a1="rel", a2="rel"), o("lns", A, "/c2", B, "/e2", a1="dot", a2="abs"),
          o("lns", A, "/c2", B, "/e3", a1="abs", a2="rel"), o("cp", B, "/e", B, "/copy_of_e", a1="rel", a2="dot")]),
    ]


# ------------------------------------------------------------------ run
def _pool():
    return mp.get_context("fork").Pool(4)


def evaluate(ctx, tasks, tag):
    with _pool() as pool:
        recs = pool.map(run_history, tasks, chunksize=4)
    exprs = [model_expr(r["ops"]) for r in recs]
    vals = C.coq_eval(IMPORTS, exprs, shard=40, jobs=4, timeout=900, tmpdir=ctx.tmp / ("m_" + tag))
    return recs, [model_view(v) for v in vals]


def signature_counts(recs):
    from collections import Counter
    c = Counter()
    for r in recs:
        for det, sig in r["fails"]:
            c[sig or "UNSIGNED:" + det["rule"]] += 1
    return dict(c)


def run(ctx):
    thorough = ctx.tier == "thorough"
    rng = ctx.rng
    base = str(ctx.tmp / "hist")
    os.makedirs(base, exist_ok=True)
    tasks = []
    hid = 0
    LAYS = [{"kind": k_, "addr": a_, "decoys": True} for k_ in ("siblings", "nested", "up", "side") for a_ in ("abs", "rel", "dot")]
    for ci, (name, ops) in enumerate(corpus()):
        tasks.append((base, hid, 0, ops, None, "corpus", None, dict(LAYS[ci % len(LAYS)], cli_obs=(ci % 3 == 0)) if ci % 2 else None))
        hid += 1
    for name, ops in layout_corpus():
        for lay in LAYS:
            tasks.append((base, hid, 0, ops, None, "corpus-layout", None, dict(lay, cli_obs=True)))
            hid += 1
    n_main, n_missing = (1500, 300) if thorough else (225, 45)
    for i_ in range(n_main):
        tail = {"p": rng.choice(PATHS), "k": rng.randrange(20)} if i_ % 3 == 0 else None
        lay = dict(rng.choice(LAYS), cli_obs=(i_ % 4 == 1)) if i_ % 5 != 0 else None     # 4 of 5 histories away from the plain layout
        tasks.append((base, hid, rng.randrange(2 ** 31), None, rng.randint(2, 8 if thorough else 6), "existing", tail, lay))
        hid += 1
    for _ in range(n_missing):
        tasks.append((base, hid, rng.randrange(2 ** 31), None, rng.randint(2, 5), "missing", None, dict(rng.choice(LAYS))))
        hid += 1
    recs, mviews = evaluate(ctx, tasks, "all")

    shrunk = 0
    kinds = {}
    for task, rec, mv in zip(tasks, recs, mviews):
        ops = rec["ops"]
        case = {"ops": ops, "layout": task[7] if len(task) > 7 else None}
        succ_copy = any(o["op"] in ("cp", "mv", "ln", "lns") and s["outcome"] == "Ok" for o, s in zip(ops, rec["steps"]))
        ctx.case(case, nontrivial=len(ops) >= 2 and succ_copy, kind=task[5])
        for o_, s in zip(ops, rec["steps"]):
            kk = o_["op"] + ":" + s["outcome"]
            kinds[kk] = kinds.get(kk, 0) + 1
        diff = first_difference(impl_view(rec), mv)
        if diff is not None:
            if shrunk < 2:
                shrunk += 1
                ops2, diff2 = shrink(ctx, ops)
                if diff2 is not None:
                    case, diff = {"ops": ops2, "shrunk_from": len(ops)}, diff2
            ctx.disagree("history step observable: " + str(diff.get("what")), case, diff.get("impl"), diff.get("model"))
        for det, sig in rec.get("tail_fails", []):
            ctx.fail({"ops": ops, "tail": task[6], "layout": task[7] if len(task) > 7 else None}, det, sig)
        seen = set()
        for det, sig in rec["fails"]:
            keyf = (sig, det["rule"])
            if keyf in seen:
                continue
            seen.add(keyf)
            ctx.fail({"ops": ops[:det["step"] + 1], "layout": task[7] if len(task) > 7 else None}, det, sig)
    ctx.extra["op_outcomes"] = dict(sorted(kinds.items()))
    ctx.extra["oracle_failure_signatures"] = signature_counts(recs)
    ctx.extra["histories"] = {"corpus": len(corpus()), "existing_sources": n_main, "arbitrary_sources": n_missing}


def shrink(ctx, ops):
    """greedy removal of operations while implementation and model still disagree"""
    base = tempfile.mkdtemp(prefix="c15shrink_", dir=str(ctx.tmp))
    cur = list(ops)
    best = None
    budget = 14
    k = 0

    def bad(cand):
        nonlocal k
        k += 1
        rec = run_history((base, 100000 + k, 0, cand, None, "shrink"))
        try:
            v = C.coq_eval(IMPORTS, [model_expr(cand)], jobs=1, timeout=300, tmpdir=ctx.tmp / f"shrink{k}")[0]
        except C.ModelEvalError:
            return None
        return first_difference(impl_view(rec), model_view(v))
    i = len(cur) - 1
    while i >= 0 and budget > 0 and len(cur) > 1:
        cand = cur[:i] + cur[i + 1:]
        budget -= 1
        d = bad(cand)
        if d is not None:
            cur, best = cand, d
        i -= 1
    shutil.rmtree(base, ignore_errors=True)
    return cur, best


def replay(ctx, case):
    """re-run one recorded history on the implementation; True = the oracle has nothing to report
    on its last step (earlier steps may carry known findings of their own)"""
    base = str(ctx.tmp / "replay")
    os.makedirs(base, exist_ok=True)
    rec = run_history((base, 0, 0, case["ops"], None, "replay", case.get("tail"), case.get("layout")))
    last = len(case["ops"]) - 1
    bad = [f for f in rec["fails"] if f[0]["step"] == last] if not case.get("tail") else [f for f in rec["tail_fails"] if f[1] is None]
    for det, sig in bad:
        print("  ", sig, json.dumps(det, default=str)[:400])
    return not bad
