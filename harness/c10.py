"""C10 — balancing weights flatten the marginals of the filtered matrix; NaN exactly on the filtered bins.

Correspondence (public API cooler.balance_cooler, store=True column, `cooler balance` CLI) with coq/Model/Balance.v:
  (a) one sweep: balance_cooler(x0=b, max_iters=1, rescale_marginals=False, masks off) vs Model `balance` evaluated
      in Q on the exact dyadic values of b (1e-9 relative): weights, scale (mean), var
  (b) loop: full run vs an independent dense numpy reference of the documented procedure: number of sweeps (counted
      through the map functor), converged, var, scale, weights; the reference trajectory is tied to the model sweep by
      sweep (model evaluated on the exact value of the float weights of each sweep); short runs (max_iters <= 3) are
      evaluated completely in Q
  (c) masks: NaN pattern vs Model (`balance` ... NaN marks; by theorem nan_set the pattern is fixed after the first sweep)
  (d) flatness: the bound of theorem flatness_bound evaluated with Fractions on the returned weights
Property oracle (never calls cooler for expected values): dense reference masks (documented filters), exact row sums of
diag(w) F diag(w) with Fractions, bound eps^2 >= N*tol/scale^2.
"""
from __future__ import annotations

import math
import os
from fractions import Fraction

import numpy as np

import coqio as C
import gen_c10 as G

PROP = "C10"
RULE = ("regression/known-finding corpus + seeded random symmetric coolers (2..8 bins, 1-3 chromosomes, empty rows, isolated bins, non-zero "
        "diagonal; count column int, or float64 with dyadic values in (0,1) / > 1 with fractions / mixed) x mode (genome-wide, cis, trans) x "
        "ignore_diags 0..3 x min_nnz 0..3 x min_count {0,3,8,15,0.5,1.25,2.5} x mad_max 0..3 x blacklist x "
        "tol 1e-2..1e-10 x max_iters {1,2,3,50,200} x x0 (dyadic, NaN, zero) x rescale x chunksize {None,2,5}; non-trivial = some mask active, "
        "or a non-genome-wide mode, or more than one sweep; distinct by input hash")
TRUSTED = ["np.median/np.log/np.exp accuracy of the MAD filter: exact 4th-power form in the model, float ties (1e-9 in log space) skipped and counted",
           "number of sweeps is observed through the number of calls of the map functor"]
ASSUMPTIONS = ["counts are non-negative integers or dyadic rationals stored as float64; a float table is evaluated in the model on its integer numerators "
               "count*den (den a power of two) with min_count*den and tol*den^2, results mapped back by scale/den, var/den^2 (weights, masks, sweeps unchanged); "
               "the oracle never uses this scaling: it works on the float/Fraction values directly",
               "trans_only needs >= 2 chromosomes; max_iters >= 1",
               "float results are compared with the exact-rational model at 1e-9 relative; runs whose tested variance is within 1e-6 relative of tol are skipped and counted"]
RESIDUE = ["--ignore-dist on a cooler without a fixed bin size (every chromosome a single bin: binsize None) aborts with TypeError before balancing; outside the claim, not generated",
           "a one-line headerless blacklist BED aborts with ValueError before balancing (csv.Sniffer takes the only line for a header); outside the claim: the generator emits BED files with >= 2 data lines or an explicit header",
           "float rounding, overflow to inf, accuracy of np.median/np.var/np.log/np.exp (exact-arithmetic model)",
           "sqrt of the rescaling step: theorem stated for every w with w_i^2 * scale = b_i^2"]

SIG_D15 = "trans-only-unequal-chrom-bins-rowsum"
SIG_D15B = "trans-only-equal-chrom-bins-rowsum-not-one"


def trans_signature(o, per):
    """narrow input predicates of the two known findings"""
    if o["trans"] and len(per) >= 2:
        return SIG_D15 if len(set(per)) > 1 else SIG_D15B
    return None


def mk(cis=False, trans=False, diags=0, mad=0, nnz=0, count=0, black=None, tol=1e-5, iters=200, x0=None, rescale=True):
    return {"cis": cis, "trans": trans, "diags": diags, "mad": mad, "nnz": nnz, "count": count, "black": black,
            "tol": tol, "iters": iters, "x0": x0, "rescale": rescale}


def full_upper(n, f):
    return [[i, j, f(i, j)] for i in range(n) for j in range(i, n)]


CORPUS = [
    # D15 (known): trans_only, chromosomes of 2/3/5 bins
    {"per": [2, 3, 5], "pixels": full_upper(10, lambda i, j: 1 + (3 * i + 5 * j + i * j) % 11), "o": mk(trans=True, tol=1e-2, iters=500)},
    # D15b (known): trans_only, equal bin counts
    {"per": [3, 3], "pixels": full_upper(6, lambda i, j: 1 + (2 * i + 7 * j) % 9), "o": mk(trans=True, tol=1e-8, iters=500)},
    {"per": [2, 2, 2], "pixels": full_upper(6, lambda i, j: 1 + (5 * i + 3 * j + i * j) % 13), "o": mk(trans=True, tol=1e-8, iters=500)},
    # D11 (fixed): ignore_diags=0 with a non-zero diagonal must give flat row sums
    {"per": [4], "pixels": [[0, 0, 5], [0, 1, 3], [0, 2, 2], [1, 1, 7], [1, 2, 1], [1, 3, 4], [2, 2, 2], [2, 3, 6], [3, 3, 1]],
     "o": mk(diags=0, tol=1e-10, iters=500)},
    {"per": [2, 3], "pixels": full_upper(5, lambda i, j: 2 + (i + 2 * j) % 5), "o": mk(cis=True, diags=0, tol=1e-8, iters=500)},
    # boundary shapes: diagonal filter next to the diagonal, thresholds hit exactly
    {"per": [5], "pixels": full_upper(5, lambda i, j: 1 + abs(i - j)), "o": mk(diags=2, nnz=2, tol=1e-6)},
    {"per": [5], "pixels": full_upper(5, lambda i, j: 1 + abs(i - j)), "o": mk(diags=1, nnz=3, tol=1e-6)},
    {"per": [3, 3], "pixels": full_upper(6, lambda i, j: 1 + (i * j) % 4), "o": mk(cis=True, diags=1, nnz=2, count=4, tol=1e-6)},
    {"per": [6], "pixels": [[0, 1, 8], [0, 2, 8], [1, 2, 8], [1, 3, 1], [2, 3, 8], [3, 4, 2], [4, 5, 9], [0, 5, 8], [2, 5, 1]],
     "o": mk(diags=1, mad=1, tol=1e-5)},
    {"per": [4, 2], "pixels": [[0, 1, 6], [0, 2, 6], [1, 2, 6], [1, 3, 6], [2, 3, 1], [0, 4, 3], [1, 5, 2], [4, 5, 7], [3, 3, 4]],
     "o": mk(diags=1, mad=2, count=7, tol=1e-5)},
    # MAD-max: every marginal equal (cutoff == 1 exactly: strict "<" masks nothing); chromosomes of very different depth
    {"per": [5], "pixels": full_upper(5, lambda i, j: 3), "o": mk(diags=0, mad=1, tol=1e-6)},
    {"per": [3, 3], "pixels": full_upper(6, lambda i, j: 2), "o": mk(diags=1, mad=3, tol=1e-6)},
    {"per": [4, 4], "pixels": [[i, j, (40 + i + j) if j < 4 else ((2 + (i + j) % 3) if i >= 4 else 1)] for i in range(8) for j in range(i, 8)],
     "o": mk(diags=1, mad=2, tol=1e-6)},
    {"per": [4, 3], "pixels": [[i, j, (30 + 3 * i + j) if j < 4 else ((1 + (i * j) % 4) if i >= 4 else 2)] for i in range(7) for j in range(i, 7)],
     "o": mk(cis=True, diags=1, mad=1, nnz=1, tol=1e-6)},
    # min_count exactly at a marginal, min_nnz exactly at a row count
    {"per": [4], "pixels": [[0, 1, 4], [0, 2, 4], [1, 2, 2], [1, 3, 6], [2, 3, 2]], "o": mk(diags=1, count=8, tol=1e-6)},
    {"per": [4], "pixels": [[0, 1, 4], [0, 2, 4], [1, 2, 2], [1, 3, 6], [2, 3, 2], [0, 0, 9]], "o": mk(diags=1, nnz=2, tol=1e-6)},
    # float64 count column: the min_nnz filter counts NON-ZERO entries, not their values (values in (0,1), > 1 with
    # fractions, mixed); fractional min_count thresholds
    {"per": [5], "pixels": full_upper(5, lambda i, j: (1 + (2 * i + 3 * j) % 7) / 8), "o": mk(diags=0, nnz=3, tol=1e-6)},
    {"per": [5], "pixels": full_upper(5, lambda i, j: (1 + (i + j) % 3) / 16), "o": mk(diags=1, nnz=2, tol=1e-8)},
    {"per": [3, 3], "pixels": full_upper(6, lambda i, j: (3 + (i * j) % 5) / 8), "o": mk(cis=True, diags=1, nnz=1, tol=1e-6)},
    {"per": [2, 2, 2], "pixels": full_upper(6, lambda i, j: (1 + (5 * i + j) % 6) / 8), "o": mk(trans=True, diags=0, nnz=3, tol=1e-4)},
    {"per": [6], "pixels": full_upper(6, lambda i, j: 2 + (1 + (i + 3 * j) % 7) / 8), "o": mk(diags=2, nnz=3, count=2.5, tol=1e-6)},
    {"per": [4, 2], "pixels": [[i, j, [0.375, 1.0, 2.625, 0.0625, 3.0][(i + 2 * j) % 5]] for i in range(6) for j in range(i, 6)],
     "o": mk(diags=1, nnz=2, count=1.25, mad=1, tol=1e-6)},
    {"per": [5], "pixels": full_upper(5, lambda i, j: 1 + (i + j) % 4), "o": mk(diags=1, nnz=2, count=0.5, tol=1e-6)},
    # input shapes: empty cooler (nnz = 0), single-bin chromosomes, one chromosome in cis mode, a chromosome without any pixel
    {"per": [2, 2], "pixels": [], "o": mk(diags=1, mad=2, nnz=1, tol=1e-5), "chunk": None},
    {"per": [2, 2], "pixels": [], "o": mk(diags=0, tol=1e-5), "chunk": 3},
    {"per": [2, 2], "pixels": [], "o": mk(cis=True, diags=1, tol=1e-5), "chunk": 3},
    # D30 regression (fixed): empty cooler, cis_only, chunksize None used to raise ValueError; all chunk sizes / modes agree
    {"per": [2, 2], "pixels": [], "o": mk(cis=True, diags=1, tol=1e-5), "chunk": None},
    {"per": [2, 2], "pixels": [], "o": mk(cis=True, diags=0, nnz=1, tol=1e-5), "chunk": 1},
    {"per": [1, 2], "pixels": [], "o": mk(cis=True, diags=0, mad=1, tol=1e-5, rescale=False), "chunk": None},
    {"per": [2, 2], "pixels": [], "o": mk(diags=0, tol=1e-5), "chunk": 1},
    {"per": [2, 2], "pixels": [], "o": mk(trans=True, diags=0, tol=1e-5), "chunk": 1},
    {"per": [2, 2], "pixels": [], "o": mk(trans=True, diags=1, tol=1e-5), "chunk": 3},
    {"per": [2, 2], "pixels": [], "o": mk(trans=True, diags=0, mad=1, tol=1e-5), "chunk": None},
    {"per": [1, 3], "pixels": [[0, 0, 5], [0, 1, 2], [0, 3, 4], [1, 2, 3], [1, 3, 1], [2, 3, 6], [2, 2, 2]], "o": mk(cis=True, diags=0, tol=1e-6)},
    {"per": [1, 3], "pixels": [[0, 0, 5], [0, 1, 2], [0, 3, 4], [1, 2, 3], [1, 3, 1], [2, 3, 6], [2, 2, 2]], "o": mk(cis=True, diags=1, nnz=1, tol=1e-6)},
    {"per": [1, 1, 2], "pixels": [[0, 1, 3], [0, 2, 2], [0, 3, 5], [1, 2, 4], [1, 3, 1], [2, 3, 7]], "o": mk(trans=True, diags=0, tol=1e-4)},
    {"per": [1, 1, 2], "pixels": [[0, 1, 3], [0, 2, 2], [0, 3, 5], [1, 2, 4], [1, 3, 1], [2, 3, 7]], "o": mk(diags=1, mad=1, tol=1e-6)},
    {"per": [4], "pixels": full_upper(4, lambda i, j: 1 + (i + 2 * j) % 5), "o": mk(cis=True, diags=1, tol=1e-6)},
    {"per": [2, 2, 2], "pixels": [[0, 1, 4], [0, 4, 2], [0, 5, 3], [1, 4, 5], [1, 5, 1], [4, 5, 6], [0, 0, 2]], "o": mk(diags=1, mad=2, tol=1e-6)},
    {"per": [2, 2, 2], "pixels": [[0, 1, 4], [0, 4, 2], [0, 5, 3], [1, 4, 5], [1, 5, 1], [4, 5, 6], [0, 0, 2]], "o": mk(trans=True, diags=0, mad=1, nnz=1, tol=1e-4)},
    {"per": [2, 2, 2], "pixels": [[0, 1, 4], [0, 4, 2], [0, 5, 3], [1, 4, 5], [1, 5, 1], [4, 5, 6], [0, 0, 2]], "o": mk(cis=True, diags=0, mad=1, tol=1e-6)},
    # empty chromosome (all NaN there in cis mode), isolated bin
    {"per": [3, 2], "pixels": [[0, 1, 4], [0, 2, 2], [1, 2, 5], [3, 3, 6]], "o": mk(cis=True, diags=1, tol=1e-6)},
    {"per": [3, 2], "pixels": [[0, 1, 4], [0, 2, 2], [1, 2, 5], [0, 3, 6]], "o": mk(cis=True, diags=0, tol=1e-6, x0=[1.0, None, 2.0, 0.5, 0.0])},
]


class CountingMap:
    def __init__(self):
        self.calls = 0

    def __call__(self, f, keys):
        self.calls += 1
        return map(f, keys)


def fr(x):
    return Fraction(float(x))


def nan_pattern(w):
    return [bool(x != x) for x in w]


def model_to_groups(m, den=1):
    """Model `out_res (balance ..)` value -> list of dict(bias [Fraction|None], scale Fraction|None, var, iters) or 'error'.
    den: the model ran on the integer numerators count * den of a float count table; in the units of the
    implementation the weights are unchanged, scale = model scale / den, var = model var / den^2"""
    if m is None:
        return "error"
    out = []
    for g in m[1]:
        bias = [None if v is None else Fraction(v[1][0], v[1][1]) for v in g[0]]
        sc = None if g[1] is None else Fraction(g[1][1][0], g[1][1][1]) / den
        out.append({"bias": bias, "scale": sc, "var": Fraction(g[2][0], g[2][1]) / (den * den), "iters": g[3]})
    return out


def close_fr(a, b, rel=1e-9, abs_=0.0):
    a, b = float(a), float(b)
    return abs(a - b) <= rel * max(abs(a), abs(b)) + abs_


def compare_model_run(ctx, what, case, r, mg, o, groups_idx):
    """implementation result r (unrescaled run) against model groups mg"""
    if isinstance(r, str) or isinstance(mg, str):
        ctx.compare(what, case, r if isinstance(r, str) else "ok", mg if isinstance(mg, str) else "ok")
        return
    ok = len(mg) == len(groups_idx) == len(r["scale"])
    detail = None
    if ok:
        for k, (g, idx) in enumerate(zip(mg, groups_idx)):
            for v, i in zip(g["bias"], idx):
                x = r["w"][i]
                if (v is None) != bool(x != x) or (v is not None and not close_fr(v, x)):
                    ok, detail = False, ("weight", i, None if v is None else float(v), float(x))
            s = r["scale"][k]
            if (g["scale"] is None) != bool(s != s) or (g["scale"] is not None and not close_fr(g["scale"], s)):
                ok, detail = False, ("scale", k, None if g["scale"] is None else float(g["scale"]), float(s))
            sc = 1.0 if g["scale"] is None else float(g["scale"])
            if not close_fr(g["var"], r["var"][k], 1e-7, 1e-14 * sc * sc):
                ok, detail = False, ("var", k, float(g["var"]), float(r["var"][k]))
            if r["converged"][k] != (g["var"] < Fraction(o["tol"])) and not close_fr(g["var"], o["tol"], 1e-6):
                ok, detail = False, ("converged", k)
    if not ok:
        ctx.disagree(what, case, {"detail": detail, "w": [None if x != x else float(x) for x in r["w"]]},
                     [[None if v is None else float(v) for v in g["bias"]] for g in mg])


def flatness(o, per, F, r, groups_idx):
    """property oracle on returned weights. returns (status, detail): status in ok / vacuous / skip / FAIL-flat / FAIL-one / FAIL-theorem"""
    n = len(F)
    A = G.filtered(o, per, F, for_trans_sweep=o["trans"])
    w = r["w"]
    rs = G.rowsums_exact(A, w)
    worst = "ok"
    detail = None
    for k, idx in enumerate(groups_idx):
        if not r["converged"][k]:
            continue
        mu = r["scale"][k]
        if mu != mu:
            continue
        vals = [(i, rs[i]) for i in idx if rs[i] is not None and rs[i] != 0]
        N = len(vals)
        if N == 0:
            continue
        tol = Fraction(o["tol"]) * (1 + Fraction(1, 10 ** 6))
        muq = fr(mu)
        e = math.sqrt(float(N * tol)) / float(muq) * (1 + 1e-9) + 1e-300
        eps = Fraction(e)
        if eps * eps * muq * muq < N * tol:
            eps = eps * (1 + Fraction(1, 10 ** 6))
        if eps >= 1:
            worst = "vacuous" if worst == "ok" else worst
            continue
        slack = Fraction(1, 10 ** 9)
        lo, hi = 1 / (1 + eps) * (1 - slack), 1 / (1 - eps) * (1 + slack)
        xs = [v for _, v in vals]
        # equal to one another: max/min within the two-sided band
        if max(xs) * lo > min(xs) * hi:
            return "FAIL-flat", {"group": k, "rowsums": [float(x) for x in xs], "eps": float(eps)}
        if o["rescale"]:
            bad = [(i, float(v)) for i, v in vals if not (lo <= v <= hi)]
            if bad:
                return "FAIL-one", {"group": k, "rowsums": [float(x) for x in xs], "eps": float(eps), "band": [float(lo), float(hi)]}
        else:
            bad = [(i, float(v)) for i, v in vals if not (muq * lo <= v <= muq * hi)]
            if bad:
                return "FAIL-theorem", {"group": k, "rowsums": [float(x) for x in xs], "eps": float(eps), "scale": float(muq)}
    return worst, detail


def trans_cw_flatness(o, per, F, r):
    """what the model theorem says about trans-only: the bound holds for w * cweights"""
    if isinstance(r, str) or not r["converged"][0] or r["scale"][0] != r["scale"][0]:
        return True
    cw = G.cweights_of(per)
    o2 = dict(o)
    w2 = np.array([x * float(c) for x, c in zip(r["w"], cw)])
    r2 = dict(r)
    r2["w"] = w2
    st, _ = flatness(o2, per, F, r2, [list(range(len(F)))])
    return not st.startswith("FAIL")

# ---------------------------------------------------------------------------------------------------------
# parameter audit: every public parameter / CLI option that the generator above does not vary, one cheap case
# each, expected values from the dense reference and the documented option semantics
AUD_PER = [3, 2]
AUD_PX = [[0, 0, 3], [0, 1, 4], [0, 2, 2], [0, 3, 5], [0, 4, 1], [1, 2, 6], [1, 3, 2], [1, 4, 3], [2, 3, 4], [2, 4, 2], [3, 4, 7], [4, 4, 1]]


def _ref(per, pixels, o):
    n = sum(per)
    F = G.dense_int(n, pixels)
    b0, ties = G.ref_masks(o, per, F)
    groups = G.ref_loop_float(o, per, F, b0)
    assert not ties and not G.near_tol(groups, o["tol"])
    return G.assemble(n, groups, o["rescale"]), groups


def audit(ctx, tmp, counters):
    import cooler
    import h5py
    import pandas as pd
    from click.testing import CliRunner
    from cooler.cli import cli
    per, pixels = AUD_PER, AUD_PX
    n = sum(per)

    def fail(case, what, got, exp=None):
        ctx.fail(case, {"what": what, "got": got, "expected": exp}, None)

    def lst(w):
        return w if isinstance(w, str) else [None if x != x else float(x) for x in w]

    # ---- API variants
    clr = G.build_cooler(tmp / "aud.cool", per, pixels)
    variants = [
        ("ignore_diags=False", mk(diags=0, nnz=1, tol=1e-6), {"ignore_diags": False}),
        ("blacklist as list", mk(diags=1, black=[1, 3], tol=1e-6), {"blacklist": [1, 3]}),
        ("blacklist empty list", mk(diags=1, black=None, tol=1e-6), {"blacklist": []}),
        ("blacklist empty array", mk(diags=1, black=None, tol=1e-6), {"blacklist": np.array([], dtype=int)}),
        ("use_lock=True", mk(diags=1, nnz=1, tol=1e-6), {"use_lock": True}),
        ("use_lock=True cis", mk(cis=True, diags=0, tol=1e-6), {"use_lock": True}),
        ("max_iters reached (no convergence)", mk(diags=1, tol=1e-12, iters=2), {}),
        ("max_iters reached cis", mk(cis=True, diags=0, tol=1e-12, iters=3, rescale=False), {}),
    ]
    for name, o, over in variants:
        case = {"audit": name, "per": per, "pixels": pixels, "o": o, "chunk": 4}
        ctx.case(case, nontrivial=True, kind="audit:api")
        wref, groups = _ref(per, pixels, o)
        r = G.call_balance(clr, o, 4, map, **over)
        counters["audit"] += 1
        if isinstance(r, str) or not G.vec_close(r["w"], wref, 1e-8) or \
                r["converged"] != [bool(g["var"] < o["tol"]) for g in groups]:
            fail(case, "balance_cooler(" + name + ") differs from the dense reference",
                 r if isinstance(r, str) else {"w": lst(r["w"]), "converged": r["converged"]}, lst(wref))

    # ---- store twice under the same name: the second result replaces the first
    o1, o2 = mk(diags=1, tol=1e-6), mk(diags=0, nnz=2, tol=1e-6)
    case = {"audit": "store overwrite", "per": per, "pixels": pixels, "o": o2, "chunk": None}
    ctx.case(case, nontrivial=True, kind="audit:api")
    r1 = G.call_balance(clr, o1, None, map, store=True, store_name="w_aud")
    r2 = G.call_balance(clr, o2, None, map, store=True, store_name="w_aud")
    counters["audit"] += 1
    col = cooler.Cooler(str(tmp / "aud.cool")).bins()["w_aud"][:].values
    wref2, _ = _ref(per, pixels, o2)
    if isinstance(r2, str) or not G.vec_close(col, wref2, 1e-8):
        fail(case, "stored column after a second store=True run", lst(col), lst(wref2))

    # ---- a cooler with an extra value column: balancing uses 'count' only
    bins = cooler.binnify(pd.Series({f"c{k}": p * 10 for k, p in enumerate(per)}), 10)
    px = sorted(map(tuple, pixels))
    df = pd.DataFrame({"bin1_id": [p[0] for p in px], "bin2_id": [p[1] for p in px], "count": [p[2] for p in px],
                       "extra": [float(100 - 7 * k) for k in range(len(px))]})
    cooler.create_cooler(str(tmp / "aud_x.cool"), bins, df, columns=["count", "extra"], dtypes={"extra": np.float64})
    o = mk(diags=1, nnz=1, tol=1e-6)
    case = {"audit": "extra value column", "per": per, "pixels": pixels, "o": o, "chunk": None}
    ctx.case(case, nontrivial=True, kind="audit:api")
    r = G.call_balance(cooler.Cooler(str(tmp / "aud_x.cool")), o, None, map)
    counters["audit"] += 1
    wref, _ = _ref(per, pixels, o)
    if isinstance(r, str) or not G.vec_close(r["w"], wref, 1e-8):
        fail(case, "balance of a cooler with an extra value column", r if isinstance(r, str) else lst(r["w"]), lst(wref))

    # ---- CLI options
    runner = CliRunner()
    path = tmp / "aud_cli.cool"
    G.build_cooler(path, per, pixels)
    base = ["--ignore-diags", "1", "--min-nnz", "1", "--mad-max", "0", "--tol", "1e-06", "--max-iters", "200"]
    oc = mk(diags=1, nnz=1, tol=1e-6)
    wconv, _ = _ref(per, pixels, oc)
    onc = mk(diags=1, nnz=1, tol=1e-12, iters=2)
    wnc, gnc = _ref(per, pixels, onc)
    assert not any(g["var"] < onc["tol"] for g in gnc)

    def cli_run(args):
        res = runner.invoke(cli, ["balance"] + args + [str(path)])
        return res.exit_code, res.output

    def column(name):
        with h5py.File(path, "r") as h5:
            if name not in h5["bins"]:
                return None
            return np.array(h5["bins"][name][:], dtype=float), dict(h5["bins"][name].attrs)

    def cli_case(label, args, check):
        case = {"audit": "cli " + label, "per": per, "pixels": pixels, "cli": args}
        ctx.case(case, nontrivial=True, kind="audit:cli")
        counters["audit"] += 1

        def go():
            code, out = cli_run(args)
            return check(code, out)
        res = G.with_limit(60.0, go)
        if res is not True:
            fail(case, "cooler balance " + label, res if isinstance(res, str) else str(res))

    def stored(name, wexp, conv):
        c = column(name)
        if c is None:
            return "no column " + name
        if not G.vec_close(c[0], wexp, 1e-8):
            return {"stored": lst(c[0]), "expected": lst(wexp)}
        if bool(np.all(c[1]["converged"])) != conv:
            return "converged attr"
        return True

    cli_case("--check before balancing", ["--check"], lambda code, out: True if code == 1 and column("weight") is None else (code, out[:80]))
    cli_case("default name", base, lambda code, out: stored("weight", wconv, True) if code == 0 else ("exit", code))
    cli_case("--check after balancing", ["--check"], lambda code, out: True if code == 0 and "is balanced" in out else (code, out[:80]))
    cli_case("--check --name absent", ["--check", "--name", "other"], lambda code, out: True if code == 1 else (code, out[:80]))
    # without --force an existing column is kept and the command fails
    odiff = mk(diags=0, nnz=1, tol=1e-6)
    wdiff, _ = _ref(per, pixels, odiff)
    diffargs = ["--ignore-diags", "0", "--min-nnz", "1", "--mad-max", "0", "--tol", "1e-06", "--max-iters", "200"]
    cli_case("existing column without --force", diffargs,
             lambda code, out: (stored("weight", wconv, True) if code == 1 else ("exit", code)))
    cli_case("--force", diffargs + ["--force"], lambda code, out: stored("weight", wdiff, True) if code == 0 else ("exit", code))
    cli_case("--name", base + ["--name", "other"],
             lambda code, out: (stored("other", wconv, True) is True and stored("weight", wdiff, True) is True) or "name/weight columns")
    # --stdout prints the weights and stores nothing
    def chk_stdout(code, out):
        if code != 0 or column("w_out") is not None:
            return ("exit/col", code)
        vals = [float("nan") if t.strip() == "" else float(t) for t in out.splitlines()[-n:]]
        return True if G.vec_close(np.array(vals), wconv, 1e-4) else {"printed": vals}
    cli_case("--stdout", base + ["--stdout", "--name", "w_out"], chk_stdout)
    # --ignore-dist: ignore_diags = max(ignore_diags, ceil(dist / binsize)), bin size 10
    for dist, d in ((15, 2), (20, 2), (21, 3), (5, 1)):
        od = mk(diags=d, nnz=1, tol=1e-6)
        wd, gd = _ref(per, pixels, od)
        nm = f"w_dist{dist}"
        cli_case(f"--ignore-dist {dist}", base + ["--ignore-dist", str(dist), "--name", nm],
                 lambda code, out, nm=nm, wd=wd, gd=gd: stored(nm, wd, all(g["var"] < 1e-6 for g in gd)) if code == 0 else ("exit", code))
    # convergence policies on a run that does not converge (2 sweeps, tol 1e-12) ...
    ncargs = ["--ignore-diags", "1", "--min-nnz", "1", "--mad-max", "0", "--tol", "1e-12", "--max-iters", "2"]
    cli_case("policy store_final (not converged)", ncargs + ["--name", "p_final", "--convergence-policy", "store_final"],
             lambda code, out: stored("p_final", wnc, False) if code == 0 else ("exit", code))
    cli_case("policy store_nan (not converged)", ncargs + ["--name", "p_nan", "--convergence-policy", "store_nan"],
             lambda code, out: stored("p_nan", np.full(n, np.nan), False) if code == 0 else ("exit", code))
    cli_case("policy discard (not converged)", ncargs + ["--name", "p_disc", "--convergence-policy", "discard"],
             lambda code, out: True if code == 0 and column("p_disc") is None else ("exit/col", code))
    cli_case("policy error (not converged)", ncargs + ["--name", "p_err", "--convergence-policy", "error"],
             lambda code, out: True if code == 1 and column("p_err") is None else ("exit/col", code))
    # ... and on a run that converges every policy stores the result
    for pol in ("store_nan", "discard", "error"):
        nm = "c_" + pol
        cli_case(f"policy {pol} (converged)", base + ["--name", nm, "--convergence-policy", pol],
                 lambda code, out, nm=nm: stored(nm, wconv, True) if code == 0 else ("exit", code))
    # both mode flags at once are refused
    cli_case("--cis-only --trans-only", base + ["--cis-only", "--trans-only", "--name", "both"],
             lambda code, out: True if code != 0 and column("both") is None else ("exit/col", code))

# ---------------------------------------------------------------------------------------------------------
# `cooler balance` grid: every CLI option, random combinations; the stored column is compared with the dense
# reference (weights, NaN set = exactly the documented filters) and its NaN set with the model.
# Blacklist oracle: a BED region [start, end) excludes exactly the bins that OVERLAP it (half-open on both sides).
BIN = 10


def random_bed(rng, per):
    """BED regions (chrom index, start, end): ending inside a bin / exactly on a bin edge / at the chromosome end /
    whole chromosome / tail of one chromosome + head of the next / several"""
    regs = []

    def one(c):
        L = per[c] * BIN
        kind = rng.choice(["inside", "edge_end", "edge_both", "chrom_end", "whole", "start_edge"])
        if kind == "whole":
            return [c, 0, L]
        a = rng.randrange(per[c])
        b = rng.randrange(a, per[c])
        if kind == "inside":
            s_, e_ = a * BIN + rng.randint(1, BIN - 1), b * BIN + rng.randint(1, BIN - 1)
            if s_ >= e_:
                s_, e_ = a * BIN + 1, b * BIN + BIN - 1
        elif kind == "edge_end":
            s_, e_ = a * BIN + rng.randint(0, BIN - 1), (b + 1) * BIN
        elif kind == "edge_both":
            s_, e_ = a * BIN, (b + 1) * BIN
        elif kind == "start_edge":
            s_, e_ = a * BIN, b * BIN + rng.randint(1, BIN - 1)
        else:
            s_, e_ = a * BIN + rng.randint(0, BIN - 1), L
        return [c, s_, e_]
    k = rng.choice([1, 2, 2, 3])
    for _ in range(k):
        regs.append(one(rng.randrange(len(per))))
    if len(per) >= 2 and rng.random() < 0.35:          # spanning a chromosome boundary: two lines
        c = rng.randrange(len(per) - 1)
        regs.append([c, (per[c] - 1) * BIN + rng.choice([0, 4]), per[c] * BIN])
        regs.append([c + 1, 0, rng.choice([BIN, BIN - 3, BIN + 2 if per[c + 1] > 1 else BIN])])
    return regs


def overlap_bins(per, regs):
    off = G.offsets_of(per)
    out = set()
    for c, s_, e_ in regs:
        for k in range(per[c]):
            if k * BIN < e_ and s_ < (k + 1) * BIN:
                out.add(off[c] + k)
    return sorted(out)


def grid_effective(case):
    """the option vector the CLI run is documented to use"""
    o = dict(case["o"])
    if case.get("ignore_dist") is not None:
        o["diags"] = max(o["diags"], -(-case["ignore_dist"] // BIN))
    o["black"] = overlap_bins(case["per"], case["bed"]) if case.get("bed") else None
    o["rescale"] = True
    o["x0"] = None
    return o


def grid_args(case, bedpath):
    o = case["o"]
    a = ["--ignore-diags", str(o["diags"]), "--mad-max", str(o["mad"]), "--min-nnz", str(o["nnz"]), "--min-count", str(o["count"]),
         "--tol", repr(o["tol"]), "--max-iters", str(o["iters"]), "--convergence-policy", case["policy"]]
    if o["cis"]:
        a.append("--cis-only")
    if o["trans"]:
        a.append("--trans-only")
    if case.get("ignore_dist") is not None:
        a += ["--ignore-dist", str(case["ignore_dist"])]
    if case.get("bed"):
        a += ["--blacklist", str(bedpath)]
    if case.get("name"):
        a += ["--name", case["name"]]
    if case.get("nproc", 1) > 1:
        a += ["-p", str(case["nproc"])]
    if case.get("chunk") is not None:
        a += ["-c", str(case["chunk"])]
    if case.get("stdout"):
        a.append("--stdout")
    return a


def grid_one(case, tmp):
    """run one grid case on the implementation; returns (True | failure detail, stored weights or None)"""
    import h5py
    from click.testing import CliRunner
    from cooler.cli import cli
    per, pixels = case["per"], case["pixels"]
    n = sum(per)
    path = tmp / "grid.cool"
    G.build_cooler(path, per, pixels)
    runner = CliRunner()
    name = case.get("name") or "weight"
    names = G.chroms_of(per)
    bed = tmp / "grid.bed"
    if case.get("bed"):
        lines = [f"c{c}\t{s_}\t{e_}\n" for c, s_, e_ in case["bed"]]
        bed.write_text(("chrom\tstart\tend\n" if case.get("header") else "") + "".join(lines))
    oe = grid_effective(case)
    F = G.dense_int(n, pixels)
    b0, ties = G.ref_masks(oe, per, F)
    groups = G.ref_loop_float(oe, per, F, b0)
    if ties or G.near_tol(groups, oe["tol"]):
        return "fragile", None
    wref = G.assemble(n, groups, True)
    conv = all(g["var"] < oe["tol"] for g in groups)

    def column():
        with h5py.File(path, "r") as h5:
            if name not in h5["bins"]:
                return None
            return np.array(h5["bins"][name][:], dtype=float), dict(h5["bins"][name].attrs)

    def go():
        pre_w = None
        if case.get("pre"):
            # an existing column of that name (other options): kept without --force, replaced with it
            r0 = runner.invoke(cli, ["balance", "--ignore-diags", "0", "--mad-max", "0", "--min-nnz", "0", "--name", name, str(path)])
            if r0.exit_code != 0 or column() is None:
                return {"what": "preparatory run failed", "exit": r0.exit_code}, None
            pre_w = column()[0]
        args = grid_args(case, bed)
        if case.get("pre") == "noforce":
            res = runner.invoke(cli, ["balance"] + args + [str(path)])
            c = column()
            if res.exit_code == 0 or c is None or not np.array_equal(c[0], pre_w, equal_nan=True):
                return {"what": "existing column without --force must be kept and the command must fail", "exit": res.exit_code}, None
            return True, None
        if case.get("pre"):
            args = args + ["--force"]
        res = runner.invoke(cli, ["balance"] + args + [str(path)])
        pol = case["policy"]
        if conv or pol == "store_final":
            exp = wref
        elif pol == "store_nan":
            exp = np.full(n, np.nan)
        else:
            exp = None
        exp_exit = 1 if (not conv and pol == "error") else 0
        if res.exit_code != exp_exit:
            return {"what": "exit code", "exit": res.exit_code, "expected": exp_exit,
                    "exception": repr(res.exception)[:200]}, None
        c = column()
        if case.get("stdout"):
            if c is not None:
                return {"what": "--stdout stored a column"}, None
            if exp is None:
                return True, None
            toks = res.output.split("\n")[-n:]          # NaN is printed as an empty line; no trailing newline
            try:
                vals = np.array([float("nan") if t.strip() == "" else float(t) for t in toks])
            except ValueError:
                return {"what": "--stdout output", "out": res.output[-300:]}, None
            if len(vals) != n or not G.vec_close(vals, exp, 1e-4):
                return {"what": "--stdout weights", "printed": [None if x != x else float(x) for x in vals],
                        "expected": [None if x != x else float(x) for x in exp]}, None
            return True, (vals if (conv or pol == "store_final") else None)
        if exp is None:
            return (True, None) if c is None else ({"what": "policy " + pol + " stored a column"}, None)
        if c is None:
            return {"what": "no column stored", "policy": pol}, None
        if not G.vec_close(c[0], exp, 1e-8):
            return {"what": "stored weights: NaN set / values differ from the documented filters and procedure",
                    "stored": [None if x != x else float(x) for x in c[0]], "expected": [None if x != x else float(x) for x in exp],
                    "blacklisted_bins_expected": oe["black"]}, None
        if bool(np.all(c[1]["converged"])) != conv:
            return {"what": "converged attribute", "got": str(c[1]["converged"]), "expected": conv}, None
        chk = runner.invoke(cli, ["balance", "--check", "--name", name, str(path)])
        if chk.exit_code != 0:
            return {"what": "--check after storing", "exit": chk.exit_code}, None
        return True, (c[0] if (conv or pol == "store_final") else None)
    out = G.with_limit(90.0, go)
    if isinstance(out, str):
        return {"what": "crash/timeout", "result": out}, None
    return out


def random_grid_case(rng):
    per = G.random_per(rng)
    px = G.random_pixels(rng, per)
    while len(px) < 2:
        px = G.random_pixels(rng, per)
    o = G.random_opts(rng, per)
    o["count"] = rng.choice([0, 0, 3, 8])                  # --min-count is an integer option
    o["x0"] = None
    o["black"] = None
    o["tol"] = rng.choice([1e-3, 1e-4, 1e-5, 1e-6])
    o["iters"] = rng.choice([2, 3, 200, 200, 200])
    case = {"cli_grid": True, "per": per, "pixels": px, "o": o,
            "policy": rng.choice(["store_final", "store_final", "store_nan", "discard", "error"]),
            "name": rng.choice([None, None, "w2", "KR_like"]), "nproc": rng.choice([1, 1, 1, 2]),
            "chunk": rng.choice([None, 1, 3, 7]), "stdout": rng.random() < 0.12,
            "ignore_dist": rng.choice([None, None, None, 5, 10, 11, 20, 25])}
    if rng.random() < 0.7:
        bed = random_bed(rng, per)
        case["header"] = rng.random() < 0.3
        if len(bed) < 2 and not case["header"]:
            bed.append(list(bed[0]))       # a headerless one-line BED is a reported defect (sniffed as header): >= 2 lines
        case["bed"] = bed
    if not case["stdout"]:
        case["pre"] = rng.choice([None, None, None, "force", "noforce"])
    if max(per) < 2:
        case["ignore_dist"] = None     # no chromosome with >= 2 bins: the cooler has no bin size (see RESIDUE)
    return case


GRID_CORPUS = [
    # blacklist regions ending exactly on a bin edge: the next bin must stay (seeded defect C10-4)
    {"cli_grid": True, "per": [4], "pixels": [[i, j, 1 + (i + 2 * j) % 5] for i in range(4) for j in range(i, 4)],
     "o": mk(diags=1, tol=1e-6), "policy": "store_final", "name": None, "bed": [[0, 10, 20], [0, 10, 20]], "header": False},
    {"cli_grid": True, "per": [3, 3], "pixels": [[i, j, 2 + (i * j) % 4] for i in range(6) for j in range(i, 6)],
     "o": mk(diags=0, nnz=1, tol=1e-6), "policy": "store_final", "name": "w2", "bed": [[0, 3, 10], [1, 0, 20]], "header": False},
    {"cli_grid": True, "per": [3, 3], "pixels": [[i, j, 2 + (i * j) % 4] for i in range(6) for j in range(i, 6)],
     "o": mk(cis=True, diags=1, tol=1e-6), "policy": "store_final", "name": None, "bed": [[0, 20, 30], [1, 0, 10]], "header": True, "nproc": 2, "chunk": 3},
    {"cli_grid": True, "per": [5], "pixels": [[i, j, 1 + (3 * i + j) % 6] for i in range(5) for j in range(i, 5)],
     "o": mk(diags=1, tol=1e-6), "policy": "store_final", "name": None, "bed": [[0, 15, 30]], "header": True},
    {"cli_grid": True, "per": [2, 3], "pixels": [[i, j, 1 + (i + j) % 3] for i in range(5) for j in range(i, 5)],
     "o": mk(trans=True, diags=0, tol=1e-3), "policy": "store_final", "name": None, "bed": [[1, 10, 20], [1, 12, 18]], "header": False},
]


def cli_grid(ctx, tmp, rng, counters, thorough, exprs, pend):
    cases = [dict(c) for c in GRID_CORPUS]
    want = len(GRID_CORPUS) + (90 if thorough else 20)
    guard = 0
    while len(cases) < want and guard < 1000:
        guard += 1
        cases.append(random_grid_case(rng))
    for case in cases:
        res, w = grid_one(case, tmp)
        if res == "fragile":
            counters["grid_fragile"] += 1
            continue
        counters["cli_grid"] += 1
        ctx.case(case, nontrivial=True, kind="cli_grid" + (":bed" if case.get("bed") else ""))
        if res is not True:
            ctx.fail(case, res, None)
            continue
        if w is not None and not case.get("stdout"):
            oe = grid_effective(case)
            om = dict(oe)
            om["iters"] = 1
            exprs.append(f"out_res (balance {G.coq_balance_args(om, case['per'], case['pixels'], case.get('chunk'))})")
            pend.append(("masks", case, ({"w": w}, oe, G.groups_of(oe, case["per"]), False), G.model_den(om, case["pixels"])))


def run(ctx):
    import cooler
    thorough = ctx.tier == "thorough"
    rng = ctx.rng
    tmp = ctx.tmp

    cases = [dict(c) for c in CORPUS]
    nrand = 600 if thorough else 110
    while len(cases) < nrand + len(CORPUS):
        per = G.random_per(rng)
        px = G.random_pixels(rng, per)
        if len(px) < 1:
            continue
        o = G.random_opts(rng, per)
        if rng.random() < 0.35:                     # float64 count column with dyadic fractional values
            px = G.float_counts(rng, px)
            if rng.random() < 0.6:
                o["nnz"] = rng.choice([1, 2, 3])
        cases.append({"per": per, "pixels": px, "o": o})
    for cs in cases:
        cs.setdefault("chunk", rng.choice([None, None, 2, 5]))

    exprs = []        # Gallina expressions
    pend = []         # (kind, case, payload) aligned with exprs
    counters = {"near_tol": 0, "mad_tie": 0, "vacuous_bound": 0, "flat_checked": 0, "sweeps_tied": 0, "short_exact": 0,
                "one_sweep": 0, "store": 0, "cli": 0, "mad_tie_model_skipped": 0, "audit": 0, "cli_grid": 0, "grid_fragile": 0}

    for ci, cs in enumerate(cases):
        per, pixels, o, chunk = cs["per"], cs["pixels"], cs["o"], cs["chunk"]
        n = sum(per)
        F = G.dense_int(n, pixels)
        gidx = G.groups_of(o, per)
        b0, ties = G.ref_masks(o, per, F)
        clr = G.build_cooler(tmp / f"c{ci}.cool", per, pixels)
        case = {"per": per, "pixels": pixels, "o": o, "chunk": chunk}

        # ---------------------------------------------------------------- full run (public API)
        cm = CountingMap()
        use_store = (ci % 9 == 4)
        if use_store:
            def go(cm=cm):
                x0 = None if o["x0"] is None else np.array([np.nan if v is None else v for v in o["x0"]], dtype=float)
                w, st = cooler.balance_cooler(
                    clr, cis_only=o["cis"], trans_only=o["trans"], ignore_diags=o["diags"], mad_max=o["mad"], min_nnz=o["nnz"],
                    min_count=o["count"], blacklist=None if o["black"] is None else np.array(o["black"], dtype=int),
                    rescale_marginals=o["rescale"], x0=x0, tol=o["tol"], max_iters=o["iters"], chunksize=chunk, map=cm,
                    store=True, store_name="wtest")
                col = cooler.Cooler(str(tmp / f"c{ci}.cool")).bins()["wtest"][:].values
                import h5py
                with h5py.File(tmp / f"c{ci}.cool", "r") as h5:
                    att = dict(h5["bins/wtest"].attrs)
                same = np.array_equal(np.isnan(col), np.isnan(w)) and np.array_equal(col[~np.isnan(col)], w[~np.isnan(w)])
                if not same or bool(np.all(att["converged"])) != bool(np.all(st["converged"])):
                    return "error:StoredColumnDiffers"
                # the stats attributes of the stored column: the options echoed and the run statistics
                echo = (float(att["tol"]) == o["tol"] and int(att["min_nnz"]) == o["nnz"] and float(att["min_count"]) == o["count"]
                        and int(att["mad_max"]) == o["mad"] and bool(att["cis_only"]) == o["cis"] and int(att["ignore_diags"]) == o["diags"]
                        and not bool(att["divisive_weights"])
                        and np.array_equal(np.atleast_1d(att["scale"]), np.atleast_1d(st["scale"]), equal_nan=True)
                        and np.array_equal(np.atleast_1d(att["var"]), np.atleast_1d(st["var"]), equal_nan=True)
                        and np.array_equal(np.atleast_1d(att["converged"]), np.atleast_1d(st["converged"])))
                if not echo:
                    return "error:StoredAttrsDiffer"
                return {"w": np.array(col, dtype=float), "scale": np.atleast_1d(np.array(st["scale"], dtype=float)),
                        "var": np.atleast_1d(np.array(st["var"], dtype=float)),
                        "converged": [bool(x) for x in np.atleast_1d(st["converged"])]}
            r = G.with_limit(60.0, go)
            counters["store"] += 1
        else:
            r = G.call_balance(clr, o, chunk, cm)

        # a bin sitting on the float MAD cutoff (within 1e-9 in log space): its float decision is taken from the
        # implementation (and handed to the model through the blacklist); everything else stays independent
        model_black = list(o["black"] or [])
        model_skip = False
        if ties and not isinstance(r, str):
            tie_masked = {i: bool(r["w"][i] != r["w"][i]) for i in ties}
            b0, _ = G.ref_masks(o, per, F, tie_masked)
            exact = G.exact_mad_masked(o, per, F)
            for i in ties:
                if tie_masked[i] and not exact[i]:
                    model_black.append(i)
                elif exact[i] and not tie_masked[i]:
                    model_skip = True
            counters["mad_tie"] += 1
            counters["mad_tie_model_skipped"] += model_skip
        groups = G.ref_loop_float(o, per, F, b0)
        fragile = G.near_tol(groups, o["tol"])
        nontriv = bool(o["cis"] or o["trans"] or o["mad"] or o["nnz"] or o["count"] or o["black"] or o["x0"]
                       or sum(g["iters"] for g in groups) > len(groups))
        ctx.case(case, nontrivial=nontriv, kind=G.mode_of(o))
        if isinstance(r, str):
            ctx.fail(case, {"result": r}, None)
            os.remove(tmp / f"c{ci}.cool")
            continue

        # ---------------------------------------------------------------- oracle: NaN set, positivity
        exp_nan = [True] * n
        for g in groups:
            for i, v in zip(g["idx"], g["bias"]):
                exp_nan[i] = bool(v != v)
        if True:
            if nan_pattern(r["w"]) != exp_nan:
                ctx.fail(case, {"what": "NaN pattern differs from the documented filters", "got": nan_pattern(r["w"]), "expected": exp_nan}, None)
            elif not all((x != x) or (x > 0 and math.isfinite(x)) for x in r["w"]):
                ctx.fail(case, {"what": "a retained bin has a non-positive or infinite weight", "w": [float(x) for x in r["w"]]}, None)

        # ---------------------------------------------------------------- oracle: flatness on converged runs
        st, det = flatness(o, per, F, r, gidx)
        if st == "vacuous":
            counters["vacuous_bound"] += 1
        elif st == "ok":
            counters["flat_checked"] += 1
        elif st == "FAIL-theorem" and not o["trans"]:
            # flat, but outside [scale/(1+eps), scale/(1-eps)]: the theorem's stronger bound
            ctx.disagree("flatness_bound (unrescaled, against the reported scale)", case, det, "within bound")
        elif st.startswith("FAIL"):
            # the known trans-only findings are claimed only for runs that otherwise behave as documented
            # (weights equal to the dense reference); anything else stays an unknown violation
            as_documented = fragile or G.vec_close(r["w"], G.assemble(n, groups, o["rescale"]), 1e-8)
            ctx.fail(case, {"what": "row sums of diag(w) F diag(w) over retained bins: " + st, **(det or {})},
                     trans_signature(o, per) if as_documented else None)
        if o["trans"] and not trans_cw_flatness(o, per, F, r):
            ctx.disagree("trans_flatness (bound for w * cweights)", case, "outside", "within bound")

        # ---------------------------------------------------------------- (b) loop vs independent reference
        if fragile:
            counters["near_tol"] += 1
        else:
            wref = G.assemble(n, groups, o["rescale"])
            ok = G.vec_close(r["w"], wref, 1e-8)
            exp_calls = (1 if o["nnz"] > 0 else 0) + 1 + sum(g["iters"] for g in groups)
            if not ok or cm.calls != exp_calls:
                ctx.fail(case, {"what": "result differs from the documented iterative correction on the dense matrix",
                                "w": [None if x != x else float(x) for x in r["w"]], "expected": [None if x != x else float(x) for x in wref],
                                "map_calls": cm.calls, "expected_calls": exp_calls}, None)
            for k, g in enumerate(groups):
                conv = g["var"] < o["tol"]
                if r["converged"][k] != conv:
                    ctx.fail(case, {"what": "converged flag", "group": k, "got": r["converged"][k], "var_expected": g["var"]}, None)

        # ---------------------------------------------------------------- (c) masks + short exact runs against the model
        if not model_skip:
            o1 = dict(o)
            o1["black"] = sorted(set(model_black)) or None
            short = o["iters"] <= 3 and not fragile
            if not short:
                o1["iters"] = 1
            exprs.append(f"out_res (balance {G.coq_balance_args(o1, per, pixels, chunk)})")
            pend.append(("masks+short" if short else "masks", case, (r, o, gidx, short), G.model_den(o1, pixels)))

        # ---------------------------------------------------------------- (a) one sweep from dyadic weights
        if ci % 2 == 0 or ci < len(CORPUS):
            xb = [rng.choice(G.DYADIC) for _ in range(n)]
            if rng.random() < 0.4:
                xb[rng.randrange(n)] = 0.0
            if rng.random() < 0.2:
                xb[rng.randrange(n)] = None
            oa = mk(cis=o["cis"], trans=o["trans"], diags=o["diags"], tol=o["tol"], iters=1, x0=xb, rescale=False)
            ra = G.call_balance(clr, oa, chunk, map)
            exprs.append(f"out_res (balance {G.coq_balance_args(oa, per, pixels, chunk)})")
            pend.append(("sweep", {"per": per, "pixels": pixels, "o": oa, "chunk": chunk}, (ra, oa, gidx, True), G.model_den(oa, pixels)))
            counters["one_sweep"] += 1

        # ---------------------------------------------------------------- (b') reference trajectory tied to the model
        if thorough or ci % 3 == 0 or ci < len(CORPUS):
            T = max(len(g["traj"]) for g in groups) - 1
            steps = sorted(set([0, 1, T - 1] + ([T // 2] if thorough else []))) if T >= 1 else []
            for t in steps:
                if t < 0 or t >= T:
                    continue
                xt = [0.0] * n
                for g in groups:
                    bt = g["traj"][min(t, len(g["traj"]) - 1)]
                    for i, v in zip(g["idx"], bt):
                        xt[i] = float(v)
                ot = mk(cis=o["cis"], trans=o["trans"], diags=o["diags"], tol=o["tol"], iters=1, x0=xt, rescale=False)
                exprs.append(f"out_res (balance {G.coq_balance_args(ot, per, pixels, None)})")
                pend.append(("traj", {"per": per, "pixels": pixels, "o": ot, "sweep": t}, (groups, t), G.model_den(ot, pixels)))
                counters["sweeps_tied"] += 1
        os.remove(tmp / f"c{ci}.cool")

    # ------------------------------------------------------------ CLI: stored column
    from click.testing import CliRunner
    from cooler.cli import cli
    import h5py
    runner = CliRunner()
    for ci, cs in enumerate(cases):
        if counters["cli"] >= (8 if thorough else 3):
            break
        per, pixels, o = cs["per"], cs["pixels"], dict(cs["o"])
        if o["x0"] is not None or o["trans"] or o["count"] != int(o["count"]):
            continue
        o["rescale"] = True
        n = sum(per)
        F = G.dense_int(n, pixels)
        b0, ties = G.ref_masks(o, per, F)
        groups = G.ref_loop_float(o, per, F, b0)
        if ties or G.near_tol(groups, o["tol"]):
            continue
        wref = G.assemble(n, groups, True)
        path = tmp / f"cli{ci}.cool"
        G.build_cooler(path, per, pixels)
        args = ["balance", "--mad-max", str(o["mad"]), "--min-nnz", str(o["nnz"]), "--min-count", str(o["count"]),
                "--ignore-diags", str(o["diags"]), "--tol", repr(o["tol"]), "--max-iters", str(o["iters"]),
                "--convergence-policy", "store_final"]
        if o["cis"]:
            args.append("--cis-only")
        if o["black"]:
            bl = tmp / f"bl{ci}.bed"
            off = G.offsets_of(per)
            chrom = G.chroms_of(per)
            lines = [f"c{chrom[i]}\t{(i - off[chrom[i]]) * 10}\t{(i - off[chrom[i]]) * 10 + 10}\n" for i in o["black"]]
            if len(lines) == 1:
                lines = lines * 2          # a headerless one-line BED is a reported defect (csv.Sniffer takes it for a header)
            bl.write_text("".join(lines))
            args += ["--blacklist", str(bl)]
        case = {"per": per, "pixels": pixels, "o": o, "cli": args}
        ctx.case(case, nontrivial=True, kind="cli")

        def gocli():
            res = runner.invoke(cli, args + [str(path)])
            if res.exit_code != 0:
                return "error:exit%d" % res.exit_code
            with h5py.File(path, "r") as h5:
                return np.array(h5["bins/weight"][:], dtype=float)
        w = G.with_limit(60.0, gocli)
        counters["cli"] += 1
        if isinstance(w, str) or not G.vec_close(w, wref, 1e-8):
            ctx.fail(case, {"what": "weight column stored by `cooler balance`", "got": w if isinstance(w, str) else [None if x != x else float(x) for x in w],
                            "expected": [None if x != x else float(x) for x in wref]}, None)

    audit(ctx, tmp, counters)
    cli_grid(ctx, tmp, rng, counters, thorough, exprs, pend)

    # ------------------------------------------------------------ model evaluation + comparison
    vals = C.coq_eval(G.IMPORTS, exprs, tmpdir=tmp / "model", shard=30, jobs=4, timeout=600)
    for (kind, case, payload, mden), mv in zip(pend, vals):
        mg = model_to_groups(mv, mden)
        if kind == "traj":
            groups, t = payload
            if isinstance(mg, str) or len(mg) != len(groups):
                ctx.disagree("reference sweep vs model sweep", case, "groups", mg if isinstance(mg, str) else len(mg))
                continue
            for g, m in zip(groups, mg):
                if t >= len(g["traj"]) - 1:
                    continue
                nxt = g["traj"][t + 1]
                ok = all((mv_ is None and float(x) == 0.0) or (mv_ is not None and close_fr(mv_, x)) for mv_, x in zip(m["bias"], nxt))
                ok = ok and m["scale"] is not None and close_fr(m["var"], g["vars"][t], 1e-7, 1e-14 * float(m["scale"]) ** 2)
                if not ok:
                    ctx.disagree("reference sweep vs model sweep", case,
                                 {"next": [float(x) for x in nxt], "var": g["vars"][t]},
                                 {"next": [None if v is None else float(v) for v in m["bias"]], "var": float(m["var"])})
            continue
        r, o, gidx, full = payload
        if kind == "sweep" or full:
            rr = r
            if not isinstance(r, str) and o["rescale"]:
                # undo the rescaling of the returned weights: model weights are unrescaled
                rr = dict(r)
                w = np.array(r["w"], dtype=float).copy()
                for k, idx in enumerate(gidx):
                    s = r["scale"][k]
                    if s == s:
                        w[idx] = w[idx] * math.sqrt(s)
                rr["w"] = w
            compare_model_run(ctx, "one sweep vs model" if kind == "sweep" else "short run vs model (weights, scale, var, converged)", case, rr, mg, o, gidx)
            if kind != "sweep":
                counters["short_exact"] += 1
        if kind != "sweep":
            if isinstance(mg, str) or isinstance(r, str):
                ctx.compare("masks: NaN pattern vs model", case, r if isinstance(r, str) else "ok", mg if isinstance(mg, str) else "ok")
            else:
                mnan = [True] * len(r["w"])
                for g, idx in zip(mg, gidx):
                    for v, i in zip(g["bias"], idx):
                        mnan[i] = v is None
                ctx.compare("masks: NaN pattern vs model", case, nan_pattern(r["w"]), mnan)
    ctx.extra["counts"] = dict(counters, cases=len(cases), model_evaluations=len(exprs))


class _Collect:
    """minimal stand-in for Ctx used to replay one audit case"""

    def __init__(self):
        self.failed = []

    def case(self, *a, **k):
        pass

    def fail(self, case, detail, signature=None):
        self.failed.append(case.get("audit"))


def replay(ctx, case):
    if case.get("cli_grid"):
        res, _ = grid_one(case, ctx.tmp)
        return res is True or res == "fragile"
    if "audit" in case:
        col = _Collect()
        audit(col, ctx.tmp, {"audit": 0})
        return case["audit"] not in col.failed
    per, pixels, o = case["per"], case["pixels"], case["o"]
    n = sum(per)
    F = G.dense_int(n, pixels)
    clr = G.build_cooler(ctx.tmp / "replay.cool", per, pixels)
    b0, ties = G.ref_masks(o, per, F)
    groups = G.ref_loop_float(o, per, F, b0)
    if "cli" in case:
        from click.testing import CliRunner
        from cooler.cli import cli
        import h5py
        res = CliRunner().invoke(cli, case["cli"] + [str(ctx.tmp / "replay.cool")])
        if res.exit_code != 0:
            return False
        with h5py.File(ctx.tmp / "replay.cool", "r") as h5:
            return G.vec_close(np.array(h5["bins/weight"][:], dtype=float), G.assemble(n, groups, True), 1e-8)
    cm = CountingMap()
    r = G.call_balance(clr, o, case.get("chunk"), cm)
    if isinstance(r, str):
        return False
    if ties:
        b0, _ = G.ref_masks(o, per, F, {i: bool(r["w"][i] != r["w"][i]) for i in ties})
        groups = G.ref_loop_float(o, per, F, b0)
    exp_nan = [True] * n
    for g in groups:
        for i, v in zip(g["idx"], g["bias"]):
            exp_nan[i] = bool(v != v)
    ok = nan_pattern(r["w"]) == exp_nan and all((x != x) or (x > 0 and math.isfinite(x)) for x in r["w"])
    if not G.near_tol(groups, o["tol"]):
        ok = ok and G.vec_close(r["w"], G.assemble(n, groups, o["rescale"]), 1e-8)
        ok = ok and cm.calls == (1 if o["nnz"] > 0 else 0) + 1 + sum(g["iters"] for g in groups)
        ok = ok and all(r["converged"][k] == (g["var"] < o["tol"]) for k, g in enumerate(groups))
    st, _ = flatness(o, per, F, r, G.groups_of(o, per))
    return bool(ok and not st.startswith("FAIL"))
