(** Tie between the tail of util.parse_region as TRANSLATED from util.py on every run ([Gen.parse_region_tail]: defaults of an
    open start / end, the two refusals with the comparison expressions the source has now) and the two hand models of it:
    [Extent.parse_region] (C04: chromosome ids, lengths always known) and [Text.check_region] (C19: names, optional
    chromsizes). *)
From Cooler Require Import Model.Extent Gen.Translated.
From Cooler Require Model.Text.
From Coq Require Import Lia.
Open Scope Z_scope.

Theorem gen_parse_region_is_extent_model : forall sizes c s e,
  parse_region sizes c s e =
  match nth_error sizes c with
  | None => None
  | Some L => match Gen.parse_region_tail s e (Some L) with None => None | Some (s', e') => Some (c, s', e') end
  end.
Proof.
  intros sizes c s e. unfold parse_region, Gen.parse_region_tail, Gen.pr_end_before_start, Gen.pr_out_of_bounds.
  destruct (nth_error sizes c) as [L|]; [|reflexivity].
  destruct s as [s|]; destruct e as [e|]; cbn [fst snd]; rewrite ?Z.gtb_ltb;
    repeat match goal with |- context [if ?b then _ else _] => destruct b end; reflexivity.
Qed.

Theorem gen_parse_region_is_text_model : forall chrom os oe cs,
  Text.check_region (chrom, os, oe) cs =
  match (match cs with
         | None => Some None
         | Some t => match Text.lookup chrom t with None => None | Some l => Some (Some l) end
         end) with
  | None => None
  | Some clen => match Gen.parse_region_tail os oe clen with None => None | Some (s', e') => Some (chrom, s', e') end
  end.
Proof.
  intros chrom os oe cs. unfold Text.check_region, Gen.parse_region_tail, Gen.pr_end_before_start, Gen.pr_out_of_bounds.
  destruct cs as [t|]; [destruct (Text.lookup chrom t) as [l|]; [|reflexivity]|];
    destruct os as [s|]; destruct oe as [e|]; cbn [fst snd]; rewrite ?Z.gtb_ltb; try reflexivity;
    repeat match goal with |- context [if ?b then _ else _] => destruct b end; reflexivity.
Qed.
