#!/usr/bin/env python3
"""Splice tools/design_asbuilt.md (sections 10-14) into DESIGN.md before Appendix A; fill the seeded-defect table."""
import json, glob, os, re
here = os.path.dirname(os.path.dirname(os.path.abspath(__file__)))
d = open(os.path.join(here, "DESIGN.md")).read()
body = open(os.path.join(here, "tools", "design_asbuilt.md")).read()
rows = ["| seed | property | change (one line) | needs to manifest | caught by | how |", "|---|---|---|---|---|---|"]
for f in sorted(glob.glob(os.path.join(here, "seeded", "*", "meta.json"))):
    m = json.load(open(f))
    cr = m.get("check_result", {})
    how = "failing-input replay" if cr.get("with_failing_input") else ("no-failing-input-found" if cr.get("caught") else "**missed**")
    by = "./check " + m["property"] + (("; " + m["notes"]) if m.get("notes") else "")
    rows.append("| %s | %s | %s | %s | %s | %s |" % (m["id"], m["property"], (m.get("summary") or "").replace("|", "/")[:260], (m.get("needs_to_manifest") or "").replace("|", "/")[:260], by, how))
body = body.replace("SEEDED_TABLE", "\n".join(rows))
start = d.find("## 10. As built")
end = d.find("## Appendix A.")
if start == -1:
    start = end
sep = "---------------------------------------------------------------------------\n\n"
d = d[:start] + body.rstrip() + "\n\n" + sep + d[end:]
open(os.path.join(here, "DESIGN.md"), "w").write(d)
print("spliced; seeds:", len(rows) - 2)
