(** Proofs about the k-way merge model (Model/Merge.v): C07 and C06. *)
From Cooler Require Import Model.Merge Proofs.PixelsProofs Proofs.BinsProofs.
From Coq Require Import Sorted Permutation ZifyBool Arith.

(* ================================================================== A. merge_breakpoints *)

(** monotone (non-decreasing) offset array, positional form *)
Definition MonoN (l : list Z) : Prop :=
  forall i j, (i <= j < length l)%nat -> nth i l 0 <= nth j l 0.

Lemma ssorted_mono l : StronglySorted Z.le l -> MonoN l.
Proof.
  induction 1 as [|a l HS IH HF]; intros i j Hij; cbn [length] in Hij.
  - lia.
  - destruct i as [|i], j as [|j]; cbn [nth]; try lia.
    + rewrite Forall_forall in HF. apply HF. apply nth_In. lia.
    + apply IH. lia.
Qed.
Lemma sorted_mono l : Sorted Z.le l -> MonoN l.
Proof. intros H. apply ssorted_mono. apply Sorted_StronglySorted; [|exact H]. intros x y z; lia. Qed.

Lemma nth_skipn {A} (l : list A) lo i d : nth i (skipn lo l) d = nth (lo + i) l d.
Proof.
  revert l. induction lo as [|lo IH]; intros l; [reflexivity|].
  destruct l as [|x l]; cbn [skipn plus]; [destruct i; reflexivity|]. apply IH.
Qed.

Lemma count_le_facts l x :
  (count_le l x <= length l)%nat /\
  (forall i, (i < count_le l x)%nat -> nth i l 0 <= x) /\
  ((count_le l x < length l)%nat -> x < nth (count_le l x) l 0).
Proof.
  induction l as [|y r (IH1 & IH2 & IH3)]; cbn [count_le length].
  - repeat split; intros; lia.
  - destruct (y <=? x) eqn:E.
    + repeat split; [lia| |intros; cbn [nth]; apply IH3; lia].
      intros [|i] Hi; cbn [nth]; [lia|apply IH2; lia].
    + repeat split; [lia|intros; lia|intros _; cbn [nth]; lia].
Qed.

Lemma bisect_right_facts ci x lo : (lo <= length ci)%nat ->
  let r := bisect_right ci x lo in
  (lo <= r <= length ci)%nat /\
  (forall i, (lo <= i < r)%nat -> nth i ci 0 <= x) /\
  ((r < length ci)%nat -> x < nth r ci 0).
Proof.
  intros Hlo r. unfold bisect_right in r.
  destruct (count_le_facts (skipn lo ci) x) as (F1 & F2 & F3).
  rewrite skipn_length in F1, F3. subst r. repeat split; try lia.
  - intros i Hi. specialize (F2 (i - lo)%nat ltac:(lia)). rewrite nth_skipn in F2.
    replace (lo + (i - lo))%nat with i in F2 by lia. exact F2.
  - intros Hr. specialize (F3 ltac:(lia)). rewrite nth_skipn in F3. exact F3.
Qed.

(** the loop terminates within [length ci - 1 - lo] iterations and yields a strictly increasing
    list of positions whose last element carries all records *)
Lemma mb_loop_ok ci buf nnz : MonoN ci -> 0 <= buf ->
  nnz = nth (length ci - 1) ci 0 ->
  forall fuel lo start,
  (S lo < length ci)%nat -> start = nth lo ci 0 -> (length ci - 1 - lo <= fuel)%nat ->
  exists p, mb_loop fuel ci buf nnz lo start = Ok p /\ p <> [] /\
            StronglySorted lt (lo :: p) /\ Forall (fun h => (h < length ci)%nat) p /\
            nth (last p O) ci 0 = nnz.
Proof.
  intros HM Hbuf Hnnz. induction fuel as [|f IH]; intros lo start Hlo Hstart Hfuel; [lia|].
  cbn [mb_loop].
  set (tgt := Z.min (start + buf) nnz).
  destruct (bisect_right_facts ci tgt lo ltac:(lia)) as (B1 & B2 & B3).
  set (r := bisect_right ci tgt lo) in *.
  assert (Hstart_le : start <= tgt).
  { subst tgt start nnz. apply Z.min_glb; [lia|]. apply HM. lia. }
  assert (Hr : (lo < r)%nat).
  { destruct (Nat.eq_dec r lo) as [E|]; [|lia]. specialize (B3 ltac:(lia)). rewrite E in B3. lia. }
  set (hi0 := (r - 1)%nat).
  set (hi := if (hi0 =? lo)%nat then S hi0 else hi0).
  assert (Hhi : (lo < hi < length ci)%nat).
  { subst hi. destruct (hi0 =? lo)%nat eqn:E; [apply Nat.eqb_eq in E|apply Nat.eqb_neq in E]; subst hi0; lia. }
  destruct (nth_error ci hi) as [v|] eqn:Ev; [|apply nth_error_None in Ev; lia].
  assert (Hv : v = nth hi ci 0) by (symmetry; now apply nth_error_nth).
  destruct (v =? nnz) eqn:Evn.
  - exists [hi]. split; [reflexivity|]. split; [discriminate|]. split; [|split].
    + repeat constructor. lia.
    + repeat constructor. lia.
    + cbn [last]. lia.
  - assert (Hhi2 : (S hi < length ci)%nat).
    { destruct (Nat.eq_dec hi (length ci - 1)) as [E|]; [|lia]. rewrite E in Hv. lia. }
    destruct (IH hi v Hhi2 Hv ltac:(lia)) as (p & Ep & Pne & PS & PF & PL).
    rewrite Ep. exists (hi :: p). split; [reflexivity|]. split; [discriminate|]. split; [|split].
    + constructor; [exact PS|]. constructor; [lia|].
      inversion PS as [|? ? _ HF]; subst. eapply Forall_impl; [|exact HF]. cbn. intros; lia.
    + constructor; [lia|exact PF].
    + destruct p as [|q p']; [contradiction|]. exact PL.
Qed.

(* ---- the combined index *)
Definition colsum (idxs : list (list Z)) (i : nat) : Z :=
  fold_right (fun a s => nth i a 0 + s) 0 idxs.

Lemma vadd_facts a : forall b, length a = length b ->
  length (vadd a b) = length a /\ forall i, nth i (vadd a b) 0 = nth i a 0 + nth i b 0.
Proof.
  induction a as [|x a IH]; intros [|y b] Hl; cbn [length] in Hl; try discriminate; cbn [vadd length].
  - split; [reflexivity|]. intros [|i]; reflexivity.
  - destruct (IH b ltac:(lia)) as (L & N). split; [lia|]. intros [|i]; cbn [nth]; [reflexivity|apply N].
Qed.

Lemma fold_vadd_facts idxs : forall acc,
  Forall (fun a => length a = length acc) idxs ->
  length (fold_left vadd idxs acc) = length acc /\
  forall i, nth i (fold_left vadd idxs acc) 0 = nth i acc 0 + colsum idxs i.
Proof.
  induction idxs as [|a idxs IH]; intros acc HF; cbn [fold_left colsum fold_right].
  - split; [reflexivity|]. intros; lia.
  - inversion HF as [|? ? Ha HF']; subst.
    destruct (vadd_facts acc a ltac:(lia)) as (L & N).
    destruct (IH (vadd acc a)) as (L' & N').
    { eapply Forall_impl; [|exact HF']. cbn. intros; lia. }
    split; [lia|]. intros i. rewrite N', N. fold (colsum idxs i). lia.
Qed.

Lemma nth_repeat0 n i : nth i (repeat 0 n) 0 = 0.
Proof. revert i. induction n; intros [|i]; cbn; auto. Qed.

Lemma combined_index_facts idxs L :
  Forall (fun a => length a = L) idxs -> idxs <> [] ->
  length (combined_index idxs) = L /\ forall i, nth i (combined_index idxs) 0 = colsum idxs i.
Proof.
  intros HF Hne. unfold combined_index.
  assert (HL : length (hd [] idxs) = L).
  { destruct idxs; [contradiction|]. inversion HF; subst. reflexivity. }
  destruct (fold_vadd_facts idxs (repeat 0 (length (hd [] idxs)))) as (A & B).
  { rewrite repeat_length, HL. exact HF. }
  rewrite repeat_length in A. split; [lia|]. intros i. rewrite B, nth_repeat0. lia.
Qed.

Lemma colsum_mono idxs i j : Forall MonoN idxs -> Forall (fun a => (j < length a)%nat) idxs ->
  (i <= j)%nat -> colsum idxs i <= colsum idxs j.
Proof.
  induction idxs as [|a idxs IH]; intros HM HL Hij; cbn [colsum fold_right]; [lia|].
  inversion HM; inversion HL; subst. fold (colsum idxs i). fold (colsum idxs j).
  specialize (IH ltac:(assumption) ltac:(assumption) Hij).
  assert (nth i a 0 <= nth j a 0) by (match goal with H : MonoN a |- _ => apply H end; lia). lia.
Qed.

(** equal column sums at two positions force equality in every (monotone) input *)
Lemma colsum_eq_each idxs i j : Forall MonoN idxs -> Forall (fun a => (j < length a)%nat) idxs ->
  (i <= j)%nat -> colsum idxs i = colsum idxs j ->
  Forall (fun a => nth i a 0 = nth j a 0) idxs.
Proof.
  induction idxs as [|a idxs IH]; intros HM HL Hij E; [constructor|].
  inversion HM as [|? ? Ma HM']; inversion HL as [|? ? La HL']; subst.
  cbn [colsum fold_right] in E. fold (colsum idxs i) in E. fold (colsum idxs j) in E.
  pose proof (colsum_mono idxs i j HM' HL' Hij).
  assert (nth i a 0 <= nth j a 0) by (apply Ma; lia).
  constructor; [lia|]. apply IH; auto. lia.
Qed.

Lemma last_nth {A} (l : list A) d : last l d = nth (length l - 1) l d.
Proof.
  induction l as [|x l IH]; [reflexivity|]. destruct l as [|y l]; [reflexivity|].
  change (last (x :: y :: l) d) with (last (y :: l) d). rewrite IH. cbn [length].
  replace (S (S (length l)) - 1)%nat with (S (S (length l) - 1)) by lia. reflexivity.
Qed.

(** C07 theorem 1: for every family of monotone offset arrays of equal length L >= 2 that start at 0
    and every bufsize >= 1 (>= 0 suffices), fuel L is never exhausted, the partition starts at 0, is strictly
    increasing, stays inside the index, and every row from its last element on is empty in every input. *)
Theorem breakpoints_partition idxs L buf :
  idxs <> [] -> (2 <= L)%nat ->
  Forall (fun a => length a = L /\ MonoN a /\ nth 0 a 0 = 0) idxs -> 0 <= buf ->
  exists p, merge_breakpoints L idxs buf = Ok p /\
    hd 1%nat p = O /\ StronglySorted lt p /\ Forall (fun h => (h < L)%nat) p /\
    Forall (fun a => forall r, (last p O <= r < L)%nat -> nth r a 0 = nth (L - 1) a 0) idxs.
Proof.
  intros Hne HL HF Hbuf.
  assert (FL : Forall (fun a => length a = L) idxs) by (eapply Forall_impl; [|exact HF]; cbn; tauto).
  assert (FM : Forall MonoN idxs) by (eapply Forall_impl; [|exact HF]; cbn; tauto).
  destruct (combined_index_facts idxs L FL Hne) as (CL & CN).
  set (ci := combined_index idxs) in *.
  assert (FJ : forall j, (j < L)%nat -> Forall (fun a => (j < length a)%nat) idxs).
  { intros j Hj. eapply Forall_impl; [|exact FL]. cbn. intros; lia. }
  assert (CM : MonoN ci).
  { intros i j Hij. rewrite !CN. apply colsum_mono; [exact FM|apply FJ; lia|lia]. }
  assert (C0 : nth 0 ci 0 = 0).
  { rewrite CN. clear -HF. induction idxs as [|a t IH]; [reflexivity|]. inversion HF as [|? ? (_ & _ & H0) HF']; subst.
    cbn [colsum fold_right]. fold (colsum t 0). rewrite IH by assumption. lia. }
  unfold merge_breakpoints. fold ci.
  destruct ci as [|c0 ci'] eqn:Eci; [cbn in CL; lia|]. rewrite <- Eci in *.
  destruct (mb_loop_ok ci buf (last ci 0) CM Hbuf (last_nth ci 0) L O 0 ltac:(lia) ltac:(lia) ltac:(lia))
    as (p & Ep & Pne & PS & PF & PLast).
  rewrite Ep. exists (O :: p). split; [reflexivity|]. split; [reflexivity|]. split; [exact PS|]. split.
  - constructor; [lia|]. rewrite CL in PF. exact PF.
  - assert (Hl : last (O :: p) O = last p O) by (destruct p; [contradiction|reflexivity]). rewrite Hl.
    assert (Hlt : (last p O < L)%nat).
    { rewrite Forall_forall in PF. rewrite <- CL. apply PF. destruct p; [contradiction|]. apply (@exists_last _ (n :: p)) in Pne.
      destruct Pne as (q & z & Eq). rewrite Eq. rewrite last_last. apply in_or_app. right. left. reflexivity. }
    rewrite (last_nth ci 0), CL, !CN in PLast.
    pose proof (colsum_eq_each idxs (last p O) (L - 1) FM (FJ (L - 1)%nat ltac:(lia)) ltac:(lia) PLast) as HE.
    rewrite Forall_forall in *. intros a Ha r Hr. specialize (HE a Ha).
    destruct (HF a Ha) as (La & Ma & _).
    assert (nth (last p O) a 0 <= nth r a 0) by (apply Ma; lia).
    assert (nth r a 0 <= nth (L - 1) a 0) by (apply Ma; lia). lia.
Qed.

(* ================================================================== B. group-by *)
Section GroupBy.
Context {V : Type}.
Notation recd := (key * V)%type.
Notation grp := (key * list V)%type.

Definition gkeys (g : list grp) : list key := map fst g.
Definition GSorted (g : list grp) : Prop := StronglySorted klt (gkeys g).
(** all values stored under key k in a grouped table *)
Fixpoint glook (g : list grp) (k : key) : list V :=
  match g with
  | [] => []
  | (k', vs) :: t => (if keqb k' k then vs else []) ++ glook t k
  end.

Lemma keqb_eq a b : keqb a b = true <-> a = b.
Proof. unfold keqb. destruct a, b; cbn [fst snd]. split; [intros H; f_equal; lia|intros H; inversion H; lia]. Qed.
Lemma keqb_refl a : keqb a a = true. Proof. now apply keqb_eq. Qed.
Lemma keqb_neq a b : keqb a b = false <-> a <> b.
Proof. rewrite <- keqb_eq. destruct (keqb a b); split; congruence. Qed.

Lemma vals_nil k : @vals V [] k = []. Proof. reflexivity. Qed.
Lemma vals_cons (p : recd) l k : vals (p :: l) k = (if keqb (fst p) k then [snd p] else []) ++ vals l k.
Proof. unfold vals. cbn [filter]. destruct (keqb (fst p) k); reflexivity. Qed.
Lemma vals_app (l1 l2 : list recd) k : vals (l1 ++ l2) k = vals l1 k ++ vals l2 k.
Proof. unfold vals. now rewrite filter_app, map_app. Qed.
Lemma vals_notin (l : list recd) k : ~ In k (map fst l) -> vals l k = [].
Proof.
  induction l as [|p l IH]; intros H; [reflexivity|]. rewrite vals_cons, IH.
  - destruct (keqb (fst p) k) eqn:E; [|reflexivity]. apply keqb_eq in E. exfalso. apply H. left. exact E.
  - intro X. apply H. right. exact X.
Qed.
Lemma vals_in (l : list recd) k : In k (map fst l) -> vals l k <> [].
Proof.
  induction l as [|p l IH]; intros H; [contradiction|]. rewrite vals_cons.
  destruct (keqb (fst p) k) eqn:E; [discriminate|]. cbn [app]. apply IH.
  destruct H as [H|H]; [|exact H]. apply keqb_neq in E. contradiction.
Qed.
(** filtering by a predicate on the key keeps or drops all values of a key *)
Lemma vals_filter (P : key -> bool) (l : list recd) k :
  vals (filter (fun p => P (fst p)) l) k = if P k then vals l k else [].
Proof.
  induction l as [|p l IH]; cbn [filter]; [destruct (P k); reflexivity|].
  rewrite vals_cons. destruct (P (fst p)) eqn:Ep.
  - rewrite vals_cons, IH. destruct (keqb (fst p) k) eqn:E.
    + apply keqb_eq in E. subst k. rewrite Ep. reflexivity.
    + destruct (P k); reflexivity.
  - rewrite IH. destruct (keqb (fst p) k) eqn:E; [|reflexivity].
    apply keqb_eq in E. subst k. rewrite Ep. reflexivity.
Qed.
Lemma keys_filter (P : key -> bool) (l : list recd) k :
  In k (map fst (filter (fun p => P (fst p)) l)) <-> In k (map fst l) /\ P k = true.
Proof.
  rewrite !in_map_iff. split.
  - intros (p & E & Hp). apply filter_In in Hp. destruct Hp as (Hp & HP). subst k. split; [exists p; auto|exact HP].
  - intros ((p & E & Hp) & HP). subst k. exists p. split; [reflexivity|]. apply filter_In. auto.
Qed.

Lemma glook_notin g k : ~ In k (gkeys g) -> glook g k = [].
Proof.
  induction g as [|[k' vs] t IH]; intros H; [reflexivity|]. cbn [glook gkeys map fst In] in *.
  destruct (keqb k' k) eqn:E. { apply keqb_eq in E. exfalso. apply H. left. exact E. }
  cbn [app]. apply IH. intro X. apply H. right. exact X.
Qed.
Lemma glook_app g1 g2 k : glook (g1 ++ g2) k = glook g1 k ++ glook g2 k.
Proof. induction g1 as [|[k' vs] t IH]; cbn [app glook]; [reflexivity|]. now rewrite IH, app_assoc. Qed.

Lemma gkeys_gins k v g x : In x (gkeys (gins k v g)) <-> x = k \/ In x (gkeys g).
Proof.
  induction g as [|[k0 vs] t IH]; cbn [gins gkeys map In fst]; [intuition|].
  destruct (kcmp k k0) eqn:E; cbn [gkeys map In fst].
  - apply kcmp_eq in E; subst. intuition.
  - intuition.
  - fold (gkeys (gins k v t)). rewrite IH. fold (gkeys t). intuition.
Qed.
Lemma gsorted_gins k v g : GSorted g -> GSorted (gins k v g).
Proof.
  unfold GSorted. induction g as [|[k0 vs] t IH]; cbn [gins gkeys map fst]; intro H.
  - constructor; constructor.
  - inversion H as [|? ? Ht Hall]; subst. destruct (kcmp k k0) eqn:E; cbn [gkeys map fst].
    + constructor; assumption.
    + apply kcmp_lt in E. constructor; [exact H|]. constructor; [exact E|].
      eapply Forall_impl; [|exact Hall]. intros a Ha. eapply klt_trans; eauto.
    + apply kcmp_gt in E. constructor; [apply IH; exact Ht|].
      apply Forall_forall. intros x Hx. apply (gkeys_gins k v t x) in Hx. destruct Hx as [->|Hx]; [exact E|].
      rewrite Forall_forall in Hall. apply Hall; exact Hx.
Qed.
Lemma gsorted_head_notin k0 vs t : GSorted ((k0, vs) :: t) -> ~ In k0 (gkeys t).
Proof.
  intros H X. inversion H as [|? ? _ Hall]; subst. rewrite Forall_forall in Hall.
  apply (klt_irrefl k0). apply Hall. exact X.
Qed.
Lemma glook_gins k v g q : GSorted g ->
  glook (gins k v g) q = glook g q ++ (if keqb k q then [v] else []).
Proof.
  induction g as [|[k0 vs] t IH]; intros HS; cbn [gins glook].
  - now rewrite app_nil_r.
  - pose proof (gsorted_head_notin _ _ _ HS) as Hn.
    inversion HS as [|? ? HSt Hall]; subst. fold (gkeys t) in *.
    destruct (kcmp k k0) eqn:E; cbn [glook].
    + apply kcmp_eq in E; subst k0. destruct (keqb k q) eqn:Eq.
      * apply keqb_eq in Eq; subst q. rewrite (glook_notin t k Hn). now rewrite !app_nil_r.
      * now rewrite !app_nil_r.
    + apply kcmp_lt in E. destruct (keqb k q) eqn:Eq; [|now rewrite app_nil_r].
      apply keqb_eq in Eq; subst q.
      assert (Hk0 : keqb k0 k = false) by (apply keqb_neq; intros ->; now apply (klt_irrefl k)).
      rewrite Hk0. cbn [app]. rewrite (glook_notin t k); [reflexivity|].
      intro X. rewrite Forall_forall in Hall. apply (klt_irrefl k). eapply klt_trans; [exact E|apply Hall; exact X].
    + rewrite (IH HSt). now rewrite app_assoc.
Qed.

(** g is the sorted grouping of src: strictly sorted keys, same key set, same values per key in order *)
Definition GCanon (src : list recd) (g : list grp) : Prop :=
  GSorted g /\ (forall k, In k (gkeys g) <-> In k (map fst src)) /\ (forall k, glook g k = vals src k).

Lemma fold_gins_facts (l : list recd) : forall acc, GSorted acc ->
  let r := fold_left (fun acc p => gins (fst p) (snd p) acc) l acc in
  GSorted r /\ (forall k, In k (gkeys r) <-> In k (gkeys acc) \/ In k (map fst l))
  /\ (forall k, glook r k = glook acc k ++ vals l k).
Proof.
  induction l as [|[k0 v0] t IH]; intros acc HS; cbn [fold_left].
  - split; [exact HS|]. split; [intros k; cbn; intuition|]. intros k. now rewrite vals_nil, app_nil_r.
  - specialize (IH (gins k0 v0 acc) (gsorted_gins k0 v0 acc HS)). cbn zeta in IH.
    destruct IH as (S' & K' & L'). cbn [fst snd]. split; [exact S'|]. split.
    + intros k. rewrite K', gkeys_gins. cbn [map In fst]. intuition.
    + intros k. rewrite L', (glook_gins _ _ _ _ HS), vals_cons. cbn [fst snd]. now rewrite app_assoc.
Qed.
Theorem group_canon (l : list recd) : GCanon l (group l).
Proof.
  unfold group. destruct (fold_gins_facts l [] ltac:(constructor)) as (S' & K' & L').
  split; [exact S'|]. split.
  - intros k. rewrite K'. cbn. intuition.
  - intros k. rewrite L'. reflexivity.
Qed.

(** two sorted groupings with the same keys whose value lists are related key-wise are related entry-wise *)
Lemma gsorted_rel (R : list V -> list V -> Prop) g1 : forall g2, GSorted g1 -> GSorted g2 ->
  (forall k, In k (gkeys g1) <-> In k (gkeys g2)) ->
  (forall k, In k (gkeys g1) -> R (glook g1 k) (glook g2 k)) ->
  Forall2 (fun e1 e2 => fst e1 = fst e2 /\ R (snd e1) (snd e2)) g1 g2.
Proof.
  induction g1 as [|[k1 v1] t1 IH]; intros g2 S1 S2 HK HL.
  - destruct g2 as [|[k2 v2] t2]; [constructor|]. exfalso. apply (HK k2). left; reflexivity.
  - destruct g2 as [|[k2 v2] t2]. { exfalso. apply (HK k1). left; reflexivity. }
    pose proof (gsorted_head_notin _ _ _ S1) as N1. pose proof (gsorted_head_notin _ _ _ S2) as N2.
    cbn [gkeys map fst] in *. inversion S1 as [|? ? S1t A1]; inversion S2 as [|? ? S2t A2]; subst.
    rewrite Forall_forall in A1, A2.
    assert (k1 = k2) as ->.
    { destruct (proj1 (HK k1) (or_introl eq_refl)) as [E|E]; [symmetry; exact E|].
      destruct (proj2 (HK k2) (or_introl eq_refl)) as [E'|E']; [exact E'|].
      exfalso. apply (klt_irrefl k1). eapply klt_trans; [apply A1; exact E' | apply A2; exact E]. }
    constructor.
    + split; [reflexivity|]. cbn [snd]. specialize (HL k2 (or_introl eq_refl)). cbn [glook] in HL.
      rewrite keqb_refl, (glook_notin t1 k2 N1), (glook_notin t2 k2 N2), !app_nil_r in HL. exact HL.
    + apply IH; auto.
      * intro k. split; intro X.
        -- destruct (proj1 (HK k) (or_intror X)) as [E|E]; [subst; contradiction|exact E].
        -- destruct (proj2 (HK k) (or_intror X)) as [E|E]; [subst; contradiction|exact E].
      * intros k X. specialize (HL k (or_intror X)). cbn [glook] in HL.
        assert (keqb k2 k = false) as Ek by (apply keqb_neq; intros ->; contradiction).
        rewrite Ek in HL. exact HL.
Qed.

Theorem gcanon_unique src g1 g2 : GCanon src g1 -> GCanon src g2 -> g1 = g2.
Proof.
  intros (S1 & K1 & L1) (S2 & K2 & L2).
  assert (F : Forall2 (fun e1 e2 : grp => fst e1 = fst e2 /\ snd e1 = snd e2) g1 g2).
  { apply gsorted_rel; auto.
    - intro k. rewrite K1, K2. reflexivity.
    - intros k _. rewrite L1, L2. reflexivity. }
  clear -F. induction F as [|[a b] [c d] l1 l2 (E1 & E2) _ IH]; [reflexivity|]. cbn in *. subst. reflexivity.
Qed.

(** the source only matters through its key set and its values per key *)
Lemma gcanon_src src src' g :
  (forall k, In k (map fst src) <-> In k (map fst src')) -> (forall k, vals src k = vals src' k) ->
  GCanon src g -> GCanon src' g.
Proof.
  intros HK HV (S1 & K1 & L1). split; [exact S1|]. split.
  - intro k. rewrite K1. apply HK.
  - intro k. rewrite L1. apply HV.
Qed.

Lemma ssorted_klt_app (a b : list key) : StronglySorted klt a -> StronglySorted klt b ->
  (forall x y, In x a -> In y b -> klt x y) -> StronglySorted klt (a ++ b).
Proof.
  induction 1 as [|x a HS IH HF]; intros Sb H; [exact Sb|]. cbn [app]. constructor.
  - apply IH; auto. intros; apply H; [right|]; assumption.
  - apply Forall_app. split; [exact HF|]. apply Forall_forall. intros y Hy. apply H; [left; reflexivity|exact Hy].
Qed.

(** grouping is compositional over a split of the keys into a lower and an upper part *)
Lemma group_app_sorted (l1 l2 : list recd) :
  (forall k1 k2, In k1 (map fst l1) -> In k2 (map fst l2) -> klt k1 k2) ->
  group (l1 ++ l2) = group l1 ++ group l2.
Proof.
  intros Hlt. apply (gcanon_unique (l1 ++ l2)); [apply group_canon|].
  destruct (group_canon l1) as (S1 & K1 & L1). destruct (group_canon l2) as (S2 & K2 & L2).
  split; [|split].
  - unfold GSorted, gkeys in *. rewrite map_app. apply ssorted_klt_app; auto.
    intros x y Hx Hy. apply Hlt; [apply K1; exact Hx|apply K2; exact Hy].
  - intro k. unfold gkeys in *. rewrite !map_app, !in_app_iff, K1, K2. reflexivity.
  - intro k. rewrite glook_app, vals_app, L1, L2. reflexivity.
Qed.

Lemma groupby_agg_app agg (l1 l2 : list recd) :
  (forall k1 k2, In k1 (map fst l1) -> In k2 (map fst l2) -> klt k1 k2) ->
  groupby_agg agg (l1 ++ l2) = groupby_agg agg l1 ++ groupby_agg agg l2.
Proof. intros H. unfold groupby_agg. now rewrite (group_app_sorted _ _ H), map_app. Qed.

Lemma groupby_agg_src agg (l l' : list recd) :
  (forall k, In k (map fst l) <-> In k (map fst l')) -> (forall k, vals l k = vals l' k) ->
  groupby_agg agg l = groupby_agg agg l'.
Proof.
  intros HK HV. unfold groupby_agg. f_equal. apply (gcanon_unique l'); [|apply group_canon].
  eapply gcanon_src; [exact HK|exact HV|apply group_canon].
Qed.

Lemma groupby_agg_keys agg (l : list recd) k : In k (map fst (groupby_agg agg l)) <-> In k (map fst l).
Proof.
  unfold groupby_agg. rewrite map_map. cbn [fst]. destruct (group_canon l) as (_ & K & _). apply K.
Qed.
Lemma groupby_agg_sorted agg (l : list recd) : StronglySorted klt (map fst (groupby_agg agg l)).
Proof. unfold groupby_agg. rewrite map_map. cbn [fst]. destruct (group_canon l) as (S1 & _ & _). exact S1. Qed.
(** the stored value of a key is the aggregate of that key's values over the source, in order *)
Lemma groupby_agg_value agg (l : list recd) k v :
  In (k, v) (groupby_agg agg l) -> v = agg (vals l k).
Proof.
  unfold groupby_agg. rewrite in_map_iff. intros ([k' vs] & E & Hin). cbn [fst snd] in E. inversion E; subst.
  destruct (group_canon l) as (S1 & _ & L1). rewrite <- L1. f_equal.
  clear L1. revert S1 Hin. generalize (group l). induction l0 as [|[k0 vs0] t IH]; intros S1 Hin; [contradiction|].
  pose proof (gsorted_head_notin _ _ _ S1) as N. cbn [glook]. destruct Hin as [E0|Hin].
  - inversion E0; subst. rewrite keqb_refl, (glook_notin t k N), app_nil_r. reflexivity.
  - assert (keqb k0 k = false) as Ek.
    { apply keqb_neq. intros ->. apply N. apply in_map_iff. exists (k, vs). auto. }
    rewrite Ek. cbn [app]. apply IH; [|exact Hin]. inversion S1; assumption.
Qed.
End GroupBy.

(* ================================================================== C. CoolerMerger *)
Section Merger.
Context {V : Type}.
Notation recd := (key * V)%type.

Definition rowof (p : recd) : Z := fst (fst p).
Definition RowSorted (px : list recd) : Prop := StronglySorted Z.le (map rowof px).
(** number of records in rows < b : the value of bin1_offset[b] *)
Definition cnt (px : list recd) (b : Z) : Z := zlen (filter (fun p => rowof p <? b) px).
Definition inrowsk (a b : Z) (k : key) : bool := (a <=? fst k) && (fst k <? b).
Definition inrows (a b : Z) (p : recd) : bool := inrowsk a b (fst p).

(** what the merger needs of an input cooler over n bins: rows non-decreasing and in range, and
    bin1_offset is the index of the pixel table (C02) *)
Record ValidIn (n : nat) (c : mcool V) : Prop := {
  vi_off : mc_off c = index_of n (mc_px c);
  vi_sorted : RowSorted (mc_px c);
  vi_range : Forall (fun p => 0 <= rowof p < Z.of_nat n) (mc_px c) }.

Definition allpx (inputs : list (mcool V)) : list recd := concat (map (@mc_px V) inputs).

Lemma cnt_cons p t x : cnt (p :: t) x = (if rowof p <? x then 1 else 0) + cnt t x.
Proof. unfold cnt, zlen. cbn [filter]. destruct (rowof p <? x); cbn [length]; lia. Qed.
Lemma cnt_nonneg px x : 0 <= cnt px x. Proof. unfold cnt, zlen. lia. Qed.
Lemma cnt_zero px x : Forall (fun q => x <= rowof q) px -> cnt px x = 0.
Proof.
  intros H. unfold cnt. rewrite filter_none; [reflexivity|].
  rewrite Forall_forall in H. intros q Hq. specialize (H q Hq). lia.
Qed.
Lemma cnt_mono px a b : a <= b -> cnt px a <= cnt px b.
Proof.
  intros H. induction px as [|p t IH]; [reflexivity|]. rewrite !cnt_cons.
  destruct (rowof p <? a) eqn:E1, (rowof p <? b) eqn:E2; lia.
Qed.
Lemma cnt_all px x : Forall (fun q => rowof q < x) px -> cnt px x = zlen px.
Proof.
  intros H. unfold cnt. rewrite filter_all; [reflexivity|].
  rewrite Forall_forall in H. intros q Hq. specialize (H q Hq). lia.
Qed.
Lemma cnt_le_len px x : cnt px x <= zlen px.
Proof.
  induction px as [|p t IH]; [reflexivity|]. rewrite cnt_cons. unfold zlen in *. cbn [length].
  destruct (rowof p <? x); lia.
Qed.
Lemma cnt_all_inv px x : cnt px x = zlen px -> Forall (fun q => rowof q < x) px.
Proof.
  induction px as [|p t IH]; intros H; [constructor|]. rewrite cnt_cons in H. unfold zlen in *. cbn [length] in H.
  pose proof (cnt_nonneg t x). pose proof (cnt_le_len t x) as Hle. unfold zlen in Hle.
  destruct (rowof p <? x) eqn:E; [|lia]. constructor; [lia|]. apply IH. unfold zlen. lia.
Qed.

Lemma nth_index_of n (px : list recd) b : (b <= n)%nat -> nth b (index_of n px) 0 = cnt px (Z.of_nat b).
Proof.
  intros Hb. unfold index_of. apply nth_error_nth.
  erewrite map_nth_error; [|apply nth_error_zrange; lia]. reflexivity.
Qed.
Lemma index_of_length n (px : list recd) : length (index_of n px) = S n.
Proof. unfold index_of. now rewrite map_length, zrange_length. Qed.

Lemma slice_S {A} (p : A) t x y : 0 <= x -> slice (p :: t) (1 + x) (1 + y) = slice t x y.
Proof.
  intros Hx. unfold slice. replace (1 + y - (1 + x)) with (y - x) by lia.
  replace (Z.to_nat (1 + x)) with (S (Z.to_nat x)) by lia. reflexivity.
Qed.
Lemma slice_0_S {A} (p : A) t y : 0 <= y -> slice (p :: t) 0 (1 + y) = p :: slice t 0 y.
Proof.
  intros Hy. unfold slice. replace (Z.to_nat (1 + y - 0)) with (S (Z.to_nat y)) by lia.
  replace (y - 0) with y by lia. reflexivity.
Qed.

(** the slice between two index entries is exactly the records of the rows in between *)
Lemma slice_rows px a b : RowSorted px -> a <= b ->
  slice px (cnt px a) (cnt px b) = filter (inrows a b) px.
Proof.
  unfold RowSorted. intros HS Hab. induction px as [|p t IH]; [reflexivity|].
  cbn [map] in HS. inversion HS as [|? ? HSt HF]; subst. specialize (IH HSt).
  assert (HF' : Forall (fun q => rowof p <= rowof q) t) by (rewrite Forall_map in HF; exact HF).
  rewrite !cnt_cons. cbn [filter]. unfold inrows at 1, inrowsk. fold (rowof p).
  pose proof (cnt_nonneg t a). pose proof (cnt_nonneg t b).
  destruct (rowof p <? a) eqn:Ea.
  - assert (Eb : rowof p <? b = true) by lia. rewrite Eb.
    replace (a <=? rowof p) with false by lia. cbn [andb]. rewrite slice_S by lia. exact IH.
  - assert (Ha0 : cnt t a = 0).
    { apply cnt_zero. eapply Forall_impl; [|exact HF']. cbn. intros; lia. }
    rewrite Ha0 in *. replace (a <=? rowof p) with true by lia. cbn [andb Z.add].
    destruct (rowof p <? b) eqn:Eb.
    + rewrite slice_0_S by lia. f_equal. exact IH.
    + assert (Hb0 : cnt t b = 0).
      { apply cnt_zero. eapply Forall_impl; [|exact HF']. cbn. intros; lia. }
      rewrite Hb0 in *. rewrite <- IH. reflexivity.
Qed.

Lemma epoch_frames_eq (inputs : list (mcool V)) (f g : mcool V -> Z) :
  epoch_frames inputs (map f inputs) (map g inputs)
  = concat (map (fun c => slice (mc_px c) (f c) (g c)) inputs).
Proof.
  unfold epoch_frames. induction inputs as [|c t IH]; [reflexivity|].
  cbn [map combine concat fst snd]. f_equal. exact IH.
Qed.

Lemma concat_map_filter (P : recd -> bool) (inputs : list (mcool V)) :
  concat (map (fun c => filter P (mc_px c)) inputs) = filter P (allpx inputs).
Proof.
  unfold allpx. induction inputs as [|c t IH]; [reflexivity|]. cbn [map concat]. now rewrite filter_app, IH.
Qed.

Lemma frames_rows n (inputs : list (mcool V)) (a b : nat) :
  Forall (ValidIn n) inputs -> (a <= b <= n)%nat ->
  epoch_frames inputs (map (fun c => nth a (mc_off c) 0) inputs) (map (fun c => nth b (mc_off c) 0) inputs)
  = filter (inrows (Z.of_nat a) (Z.of_nat b)) (allpx inputs).
Proof.
  intros HV Hab. rewrite epoch_frames_eq, <- concat_map_filter. f_equal.
  apply map_ext_in. intros c Hc. rewrite Forall_forall in HV. destruct (HV c Hc) as [Ho Hs Hr].
  rewrite Ho, !nth_index_of by lia. apply slice_rows; [exact Hs|lia].
Qed.

Lemma groupby_agg_nil agg : @groupby_agg V agg [] = []. Proof. reflexivity. Qed.

Lemma ssorted_le_last (b : nat) rest : StronglySorted le (b :: rest) -> (b <= last rest b)%nat.
Proof.
  intros H. inversion H as [|? ? _ HF]; subst. destruct rest as [|r rest']; [cbn; lia|].
  rewrite Forall_forall in HF. apply HF. destruct (@exists_last _ (r :: rest') ltac:(discriminate)) as (q & z & E).
  rewrite E, last_last. apply in_or_app. right. left. reflexivity.
Qed.

Lemma last_cons_default {A} (rest : list A) : forall a b, last (b :: rest) a = last rest b.
Proof.
  induction rest as [|r rest IH]; intros a b; [reflexivity|].
  change (last (b :: r :: rest) a) with (last (r :: rest) a). rewrite (IH a r), (IH b r). reflexivity.
Qed.

(** the epochs over a non-decreasing list of breakpoints aggregate exactly the rows they span *)
Lemma merger_epochs_rows agg n (inputs : list (mcool V)) : Forall (ValidIn n) inputs ->
  forall part a, StronglySorted le (a :: part) -> Forall (fun h => (h <= n)%nat) (a :: part) ->
  concat (merger_epochs agg inputs (map (fun c => nth a (mc_off c) 0) inputs) part)
  = groupby_agg agg (filter (inrows (Z.of_nat a) (Z.of_nat (last part a))) (allpx inputs)).
Proof.
  intros HV. induction part as [|b rest IH]; intros a HS HB.
  - cbn [merger_epochs concat last]. rewrite filter_none; [reflexivity|].
    intros p _. unfold inrows, inrowsk. lia.
  - cbn [merger_epochs].
    inversion HS as [|? ? HS' HFa]; subst. inversion HB as [|? ? Ha HB']; subst.
    assert (Hab : (a <= b)%nat) by (inversion HFa; assumption).
    assert (Hbn : (b <= n)%nat) by (inversion HB'; assumption).
    rewrite (frames_rows n inputs a b HV ltac:(lia)).
    set (F := filter (inrows (Z.of_nat a) (Z.of_nat b)) (allpx inputs)).
    pose proof (ssorted_le_last b rest HS') as Hbl.
    assert (E : forall X, concat (match F with
                                  | [] => X
                                  | p :: l => groupby_agg agg (p :: l) :: X
                                  end) = groupby_agg agg F ++ concat X).
    { intros X. destruct F; reflexivity. }
    rewrite E, (IH b HS' HB'). clear E.
    assert (Hl : last (b :: rest) a = last rest b) by apply last_cons_default.
    rewrite Hl. set (l := last rest b) in *.
    rewrite <- groupby_agg_app.
    + apply groupby_agg_src.
      * intro k. unfold F, inrows. rewrite map_app, in_app_iff, !keys_filter. unfold inrowsk.
        split; [intros [(H1 & H2)|(H1 & H2)]; (split; [exact H1|lia])|].
        intros (H1 & H2). destruct (fst k <? Z.of_nat b) eqn:Eb; [left|right]; (split; [exact H1|lia]).
      * intro k. unfold F, inrows. rewrite vals_app, !vals_filter. unfold inrowsk.
        destruct ((Z.of_nat a <=? fst k) && (fst k <? Z.of_nat b)) eqn:E1;
        destruct ((Z.of_nat b <=? fst k) && (fst k <? Z.of_nat l)) eqn:E2;
        destruct ((Z.of_nat a <=? fst k) && (fst k <? Z.of_nat l)) eqn:E3; try lia;
        rewrite ?app_nil_r; reflexivity.
    + intros k1 k2 H1 H2. unfold F, inrows in H1, H2. rewrite keys_filter in H1, H2. unfold inrowsk in *.
      left. lia.
Qed.

Lemma valid_index_facts n (c : mcool V) : ValidIn n c ->
  length (mc_off c) = S n /\ MonoN (mc_off c) /\ nth 0 (mc_off c) 0 = 0.
Proof.
  intros [Ho Hs Hr]. rewrite Ho. split; [apply index_of_length|]. split.
  - intros i j Hij. rewrite index_of_length in Hij. rewrite !nth_index_of by lia. apply cnt_mono. lia.
  - rewrite nth_index_of by lia. apply cnt_zero. eapply Forall_impl; [|exact Hr]. cbn. intros; lia.
Qed.

(** C07 theorem 2 (any value type, any aggregation function): for every non-empty family of valid
    inputs over n >= 1 bins and every buffer size, the merger terminates without error, never yields an
    empty chunk, and the concatenation of its chunks is the sorted group-by aggregate of all input
    records (values of a pixel in input order) *)
Theorem merger_exact agg n (inputs : list (mcool V)) buf :
  inputs <> [] -> (1 <= n)%nat -> Forall (ValidIn n) inputs -> 0 <= buf ->
  exists eps, cooler_merger agg inputs buf = Ok eps /\
              concat eps = groupby_agg agg (allpx inputs) /\ Forall (fun e => e <> []) eps.
Proof.
  intros Hne Hn HV Hbuf. unfold cooler_merger, merge_breakpoints_auto.
  set (idxs := map (@mc_off V) inputs).
  assert (HF : Forall (fun a => length a = S n /\ MonoN a /\ nth 0 a 0 = 0) idxs).
  { subst idxs. rewrite Forall_map. eapply Forall_impl; [|exact HV]. apply valid_index_facts. }
  assert (Hne' : idxs <> []) by (subst idxs; destruct inputs; [contradiction|discriminate]).
  assert (FL : Forall (fun a => length a = S n) idxs) by (eapply Forall_impl; [|exact HF]; cbn; tauto).
  destruct (combined_index_facts idxs (S n) FL Hne') as (CL & _). rewrite CL.
  destruct (breakpoints_partition idxs (S n) buf Hne' ltac:(lia) HF Hbuf) as (p & Ep & P0 & PS & PF & PE).
  rewrite Ep. cbn [bind]. eexists. split; [reflexivity|].
  destruct p as [|p0 p']; [cbn in P0; lia|]. cbn [hd] in P0. subst p0. cbn [tl].
  assert (E0 : map (fun _ : mcool V => 0) inputs = map (fun c => nth 0 (mc_off c) 0) inputs).
  { apply map_ext_in. intros c Hc. rewrite Forall_forall in HV. destruct (valid_index_facts n c (HV c Hc)) as (_ & _ & H0). now rewrite H0. }
  rewrite E0. split.
  - rewrite (merger_epochs_rows agg n inputs HV p' O).
    + f_equal. apply filter_all. intros q Hq. unfold allpx in Hq. apply in_concat in Hq.
      destruct Hq as (l & Hl & Hq). apply in_map_iff in Hl. destruct Hl as (c & <- & Hc).
      rewrite Forall_forall in HV. destruct (HV c Hc) as [Ho Hs Hr].
      assert (Hlast : last (O :: p') O = last p' O) by (destruct p'; reflexivity).
      rewrite Forall_forall in PE. specialize (PE (mc_off c) ltac:(subst idxs; apply in_map; exact Hc) (last (O :: p') O)).
      assert (Hlt : (last (O :: p') O < S n)%nat).
      { rewrite Forall_forall in PF. apply PF. destruct (@exists_last _ (O :: p') ltac:(discriminate)) as (z & w & E).
        rewrite E, last_last. apply in_or_app. right. left. reflexivity. }
      specialize (PE ltac:(lia)). rewrite Ho, !nth_index_of in PE by lia.
      replace (S n - 1)%nat with n in PE by lia.
      rewrite (cnt_all (mc_px c) (Z.of_nat n)) in PE by (eapply Forall_impl; [|exact Hr]; cbn; intros; lia).
      apply cnt_all_inv in PE. rewrite Forall_forall in PE, Hr. specialize (PE q Hq). specialize (Hr q Hq).
      rewrite Hlast in PE. unfold inrows, inrowsk. fold (rowof q). lia.
    + clear -PS. induction PS as [|x l HS IH HF]; constructor; [exact IH|].
      eapply Forall_impl; [|exact HF]. cbn. intros; lia.
    + eapply Forall_impl; [|exact PF]. cbn. intros; lia.
  - clear. generalize (map (fun c : mcool V => nth 0 (mc_off c) 0) inputs). induction p' as [|b rest IH]; intros st; cbn [merger_epochs]; [constructor|].
    destruct (epoch_frames inputs st _) as [|r fr] eqn:E; [apply IH|]. constructor; [|apply IH].
    unfold groupby_agg. destruct (group_canon (r :: fr)) as (_ & K & _).
    destruct (group (r :: fr)) as [|g gs]; [|discriminate]. exfalso. apply (K (fst r)). left. reflexivity.
Qed.
End Merger.

(* ================================================================== D. counts: V = Z, aggregation = sum *)

Definition total (l : list pixel) : Z := sumZ (map snd l).

Lemma sumZ_cons x l : sumZ (x :: l) = x + sumZ l. Proof. reflexivity. Qed.
Lemma sumZ_app a b : sumZ (a ++ b) = sumZ a + sumZ b.
Proof. induction a as [|x a IH]; cbn [app]; [change (sumZ []) with 0; lia|]. rewrite !sumZ_cons, IH. lia. Qed.
Lemma look_vals (l : list (key * Z)) k : look l k = sumZ (vals l k).
Proof.
  induction l as [|[k' v] t IH]; [reflexivity|]. rewrite vals_cons. cbn [look fst snd]. rewrite IH.
  destruct (kcmp k k') eqn:E.
  - apply kcmp_eq in E. subst k'. rewrite keqb_refl. cbn [app]. rewrite sumZ_cons. lia.
  - assert (keqb k' k = false) as ->; [|cbn [app]; lia]. apply keqb_neq. intros ->. rewrite kcmp_refl in E. discriminate.
  - assert (keqb k' k = false) as ->; [|cbn [app]; lia]. apply keqb_neq. intros ->. rewrite kcmp_refl in E. discriminate.
Qed.

Lemma look_in_sorted (out : list pixel) k v : SSorted out -> In (k, v) out -> look out k = v.
Proof.
  unfold SSorted. induction out as [|[k0 v0] t IH]; intros HS Hin; [contradiction|].
  cbn [keys map fst] in HS. inversion HS as [|? ? HSt HF]; subst. cbn [look]. destruct Hin as [E|Hin].
  - inversion E; subst. rewrite kcmp_refl, look_notin; [lia|].
    intro X. rewrite Forall_forall in HF. apply (klt_irrefl k). apply HF. exact X.
  - assert (Hk : In k (keys t)) by (apply in_map_iff; exists (k, v); auto).
    rewrite Forall_forall in HF. specialize (HF k Hk).
    destruct (kcmp k k0) eqn:E.
    + apply kcmp_eq in E. subst. exfalso. now apply (klt_irrefl k0).
    + rewrite (IH HSt Hin). lia.
    + rewrite (IH HSt Hin). lia.
Qed.

Lemma key_eq_dec (a b : key) : {a = b} + {a <> b}.
Proof. decide equality; apply Z.eq_dec. Qed.

(** the pandas group-by sum is the canonical aggregate of Model/Pixels.v *)
Theorem groupby_sum_aggregate (l : list pixel) : groupby_agg sumZ l = aggregate l.
Proof.
  apply (canon_unique l); [|apply aggregate_canon].
  pose proof (groupby_agg_sorted sumZ l) as HS.
  split; [exact HS|]. split.
  - intro k. apply groupby_agg_keys.
  - intro k. rewrite (look_vals l k).
    destruct (in_dec key_eq_dec k (keys (groupby_agg sumZ l))) as [Hin|Hnin].
    + unfold keys in Hin. apply in_map_iff in Hin. destruct Hin as ([k' v] & E & Hin). cbn [fst] in E. subst k'.
      rewrite (look_in_sorted _ k v HS Hin). apply groupby_agg_value in Hin. exact Hin.
    + rewrite look_notin by exact Hnin. rewrite vals_notin; [reflexivity|].
      intro X. apply Hnin. apply groupby_agg_keys. exact X.
Qed.

Lemma total_ins k v l : total (ins k v l) = v + total l.
Proof.
  unfold total. induction l as [|[k0 v0] t IH]; cbn [ins]; [cbn [map snd]; rewrite sumZ_cons; lia|].
  destruct (kcmp k k0); cbn [map snd] in *; rewrite ?sumZ_cons in *; lia.
Qed.
Lemma total_aggregate l : total (aggregate l) = total l.
Proof.
  unfold aggregate. assert (H : forall acc, total (fold_left (fun acc p => ins (fst p) (snd p) acc) l acc) = total acc + total l).
  { induction l as [|[k v] t IH]; intros acc; cbn [fold_left]; [unfold total; cbn [map]; change (sumZ []) with 0; lia|].
    rewrite IH, total_ins. unfold total. cbn [fst snd map]. rewrite sumZ_cons. lia. }
  rewrite H. unfold total. cbn [map]. change (sumZ []) with 0. lia.
Qed.
Lemma total_app l1 l2 : total (l1 ++ l2) = total l1 + total l2.
Proof. unfold total. now rewrite map_app, sumZ_app. Qed.
Lemma total_allpx (inputs : list (mcool Z)) : total (allpx inputs) = sumZ (map (fun c => total (mc_px c)) inputs).
Proof.
  unfold allpx. induction inputs as [|c t IH]; [reflexivity|]. cbn [map concat].
  rewrite total_app, IH, sumZ_cons. reflexivity.
Qed.

Definition merged_px {V} (agg : list V -> V) (inputs : list (mcool V)) (buf : Z) : res (list (key * V)) :=
  match cooler_merger agg inputs buf with Ok eps => Ok (concat eps) | Err e => Err e end.

(** C07 theorem 2, count column: the chunks written by the merger, concatenated, are the canonical
    aggregate (strictly sorted, same pixel set, per-pixel sum) of all input pixels, and the recorded
    total is the sum of the input totals *)
Theorem merger_canon n (inputs : list (mcool Z)) buf :
  inputs <> [] -> (1 <= n)%nat -> Forall (ValidIn n) inputs -> 0 <= buf ->
  exists out, merged_px sumZ inputs buf = Ok out /\
    Canon (allpx inputs) out /\ out = aggregate (allpx inputs) /\
    total out = sumZ (map (fun c => total (mc_px c)) inputs).
Proof.
  intros Hne Hn HV Hb. destruct (merger_exact sumZ n inputs buf Hne Hn HV Hb) as (eps & E & Ec & _).
  unfold merged_px. rewrite E. eexists. split; [reflexivity|]. rewrite Ec, groupby_sum_aggregate.
  split; [apply aggregate_canon|]. split; [reflexivity|]. now rewrite total_aggregate, total_allpx.
Qed.

(** generic form of the same statement for any value type and aggregation function *)
Theorem merger_groupby {V} (agg : list V -> V) n (inputs : list (mcool V)) buf :
  inputs <> [] -> (1 <= n)%nat -> Forall (ValidIn n) inputs -> 0 <= buf ->
  merged_px agg inputs buf = Ok (groupby_agg agg (allpx inputs)).
Proof.
  intros Hne Hn HV Hb. destruct (merger_exact agg n inputs buf Hne Hn HV Hb) as (eps & E & Ec & _).
  unfold merged_px. now rewrite E, Ec.
Qed.

(** every stored pixel carries the aggregate of exactly that pixel's values over the inputs *)
Corollary merger_pixelwise {V} (agg : list V -> V) n (inputs : list (mcool V)) buf :
  inputs <> [] -> (1 <= n)%nat -> Forall (ValidIn n) inputs -> 0 <= buf ->
  exists out, merged_px agg inputs buf = Ok out /\
    StronglySorted klt (map fst out) /\
    (forall k, In k (map fst out) <-> In k (map fst (allpx inputs))) /\
    (forall k v, In (k, v) out -> v = agg (vals (allpx inputs) k)).
Proof.
  intros Hne Hn HV Hb. exists (groupby_agg agg (allpx inputs)). split; [now apply (merger_groupby agg n)|].
  split; [apply groupby_agg_sorted|]. split; [intro k; apply groupby_agg_keys|]. intros k v. apply groupby_agg_value.
Qed.

(** buffer-size independence *)
Corollary merge_buffer_independent {V} (agg : list V -> V) n (inputs : list (mcool V)) buf buf' :
  inputs <> [] -> (1 <= n)%nat -> Forall (ValidIn n) inputs -> 0 <= buf -> 0 <= buf' ->
  merged_px agg inputs buf = merged_px agg inputs buf'.
Proof. intros. rewrite !(merger_groupby agg n); auto. Qed.

Lemma permutation_concat {A} (l l' : list (list A)) : Permutation l l' -> Permutation (concat l) (concat l').
Proof.
  induction 1 as [|x l l' _ IH|x y l|l l' l'' _ IH1 _ IH2]; cbn [concat].
  - constructor.
  - now apply Permutation_app_head.
  - rewrite !app_assoc. apply Permutation_app_tail. apply Permutation_app_comm.
  - eapply Permutation_trans; eauto.
Qed.

(** input-order independence (sum) *)
Corollary merge_order_independent n (inputs inputs' : list (mcool Z)) buf buf' :
  Permutation inputs inputs' ->
  inputs <> [] -> (1 <= n)%nat -> Forall (ValidIn n) inputs -> 0 <= buf -> 0 <= buf' ->
  merged_px sumZ inputs buf = merged_px sumZ inputs' buf'.
Proof.
  intros HP Hne Hn HV Hb Hb'.
  assert (Hne' : inputs' <> []) by (intros ->; apply Permutation_sym, Permutation_nil in HP; contradiction).
  assert (HV' : Forall (ValidIn n) inputs') by (eapply Permutation_Forall; eauto).
  rewrite !(merger_groupby sumZ n), !groupby_sum_aggregate by auto. f_equal.
  apply aggregate_perm. unfold allpx. apply permutation_concat. now apply Permutation_map.
Qed.

Lemma klt_row_le (a b : key) : klt a b -> fst a <= fst b. Proof. unfold klt. lia. Qed.
Lemma ssorted_rowsorted {V} (px : list (key * V)) : StronglySorted klt (map fst px) -> RowSorted px.
Proof.
  unfold RowSorted. induction px as [|p t IH]; intros H; cbn [map]; [constructor|].
  cbn [map] in H. inversion H as [|? ? Ht HF]; subst. constructor; [apply IH; exact Ht|].
  rewrite Forall_map in *. eapply Forall_impl; [|exact HF]. intros q Hq. apply klt_row_le in Hq. exact Hq.
Qed.
(** a written table that is strictly sorted and in range, together with its index, is a valid input *)
Lemma valid_mk_cool {V} n (px : list (key * V)) :
  StronglySorted klt (map fst px) -> Forall (fun p => 0 <= rowof p < Z.of_nat n) px -> ValidIn n (mk_cool n px).
Proof. intros HS HR. constructor; [reflexivity|apply ssorted_rowsorted; exact HS|exact HR]. Qed.

Lemma allpx_range {V} n (inputs : list (mcool V)) : Forall (ValidIn n) inputs ->
  Forall (fun p => 0 <= rowof p < Z.of_nat n) (allpx inputs).
Proof.
  intros HV. unfold allpx. apply Forall_concat. rewrite Forall_map. eapply Forall_impl; [|exact HV].
  intros c [_ _ Hr]. exact Hr.
Qed.
Lemma groupby_range {V} (agg : list V -> V) n (l : list (key * V)) :
  Forall (fun p => 0 <= rowof p < Z.of_nat n) l -> Forall (fun p => 0 <= rowof p < Z.of_nat n) (groupby_agg agg l).
Proof.
  intros H. rewrite Forall_forall in *. intros [k v] Hin.
  assert (Hk : In k (map fst l)). { apply (groupby_agg_keys agg l k). apply in_map_iff. exists (k, v). auto. }
  apply in_map_iff in Hk. destruct Hk as (q & E & Hq). specialize (H q Hq). unfold rowof in *. cbn [fst]. rewrite <- E. exact H.
Qed.
Lemma valid_merged {V} (agg : list V -> V) n (inputs : list (mcool V)) :
  Forall (ValidIn n) inputs -> ValidIn n (mk_cool n (groupby_agg agg (allpx inputs))).
Proof.
  intros HV. apply valid_mk_cool; [apply groupby_agg_sorted|]. apply groupby_range. now apply allpx_range.
Qed.

Lemma allpx_app {V} (a b : list (mcool V)) : allpx (a ++ b) = allpx a ++ allpx b.
Proof. unfold allpx. now rewrite map_app, concat_app. Qed.

(** associativity (sum): merging the stored result of a merge with further inputs equals merging
    everything at once; in particular merge [merge [a;b]; c] = merge [a;b;c] *)
Theorem merge_assoc n (xs ys : list (mcool Z)) b1 b2 b3 :
  xs <> [] -> (1 <= n)%nat -> Forall (ValidIn n) xs -> Forall (ValidIn n) ys ->
  0 <= b1 -> 0 <= b2 -> 0 <= b3 ->
  exists m, merged_px sumZ xs b1 = Ok m /\
    merged_px sumZ (mk_cool n m :: ys) b2 = merged_px sumZ (xs ++ ys) b3.
Proof.
  intros Hne Hn HX HY H1 H2 H3. exists (groupby_agg sumZ (allpx xs)).
  split; [now apply (merger_groupby sumZ n)|].
  rewrite !(merger_groupby sumZ n); auto.
  - f_equal. change (mk_cool n (groupby_agg sumZ (allpx xs)) :: ys) with ([mk_cool n (groupby_agg sumZ (allpx xs))] ++ ys).
    rewrite !allpx_app. unfold allpx at 1. cbn [map concat mc_px mk_cool]. rewrite app_nil_r.
    rewrite !groupby_sum_aggregate. apply aggregate_app_agg.
  - destruct xs; [contradiction|discriminate].
  - apply Forall_app. split; assumption.
  - discriminate.
  - constructor; [now apply valid_merged|exact HY].
Qed.

(* ================================================================== E. validation, sorting, create *)
Section Sorting.
Context {V : Type}.
Notation recd := (key * V)%type.

(** weakly sorted by key: no later record has a smaller key *)
Definition kge (a b : recd) : Prop := kltb (fst b) (fst a) = false.
Definition WSorted (l : list recd) : Prop := StronglySorted kge l.

Lemma sort_ins_perm (p : recd) l : Permutation (p :: l) (sort_ins p l).
Proof.
  induction l as [|q t IH]; cbn [sort_ins]; [reflexivity|].
  destruct (kltb (fst p) (fst q)); [reflexivity|].
  eapply Permutation_trans; [apply perm_swap|]. now apply perm_skip.
Qed.
Lemma fold_sort_ins_perm (l : list recd) : forall acc,
  Permutation (l ++ acc) (fold_left (fun acc p => sort_ins p acc) l acc).
Proof.
  induction l as [|p t IH]; intros acc; cbn [fold_left app]; [reflexivity|].
  eapply Permutation_trans; [|apply IH]. eapply Permutation_trans; [apply Permutation_middle|].
  apply Permutation_app_head. apply sort_ins_perm.
Qed.
Lemma sort_values_perm (l : list recd) : Permutation l (sort_values l).
Proof. unfold sort_values. rewrite <- (app_nil_r l) at 1. apply fold_sort_ins_perm. Qed.

Lemma sort_ins_ws (p : recd) l : WSorted l -> WSorted (sort_ins p l).
Proof.
  unfold WSorted. induction l as [|q t IH]; intro H; cbn [sort_ins]; [repeat constructor|].
  inversion H as [|? ? Ht HF]; subst. destruct (kltb (fst p) (fst q)) eqn:E.
  - constructor; [exact H|]. constructor; [unfold kge, kltb in *; lia|].
    eapply Forall_impl; [|exact HF]. unfold kge, kltb in *. intros a Ha. lia.
  - constructor; [apply IH; exact Ht|].
    eapply Permutation_Forall; [apply sort_ins_perm|]. constructor; [exact E|exact HF].
Qed.
Lemma sort_values_ws (l : list recd) : WSorted (sort_values l).
Proof.
  unfold sort_values. assert (H : forall acc, WSorted acc -> WSorted (fold_left (fun acc p => sort_ins p acc) l acc)).
  { induction l as [|p t IH]; intros acc Ha; cbn [fold_left]; [exact Ha|]. apply IH. now apply sort_ins_ws. }
  apply H. constructor.
Qed.
Lemma ws_rowsorted (l : list recd) : WSorted l -> RowSorted l.
Proof.
  unfold WSorted, RowSorted. induction 1 as [|p t Ht IH HF]; cbn [map]; constructor; [exact IH|].
  rewrite Forall_map. eapply Forall_impl; [|exact HF]. unfold kge, kltb, rowof. intros a Ha. lia.
Qed.
Lemma ssorted_ws (l : list recd) : StronglySorted klt (map fst l) -> WSorted l.
Proof.
  unfold WSorted. induction l as [|p t IH]; cbn [map]; intro H; [constructor|].
  inversion H as [|? ? Ht HF]; subst. constructor; [apply IH; exact Ht|].
  rewrite Forall_map in HF. eapply Forall_impl; [|exact HF]. unfold kge, kltb, klt. intros a Ha. lia.
Qed.

Lemma sort_ins_last (p : recd) acc : Forall (fun q => kge q p) acc -> sort_ins p acc = acc ++ [p].
Proof.
  induction acc as [|q t IH]; intro H; [reflexivity|]. inversion H as [|? ? Hq Ht]; subst.
  cbn [sort_ins app]. unfold kge in Hq. rewrite Hq. now rewrite IH.
Qed.
Lemma ws_app_inv (a : list recd) p t : WSorted (a ++ p :: t) -> Forall (fun q => kge q p) a.
Proof.
  unfold WSorted. induction a as [|x a IH]; cbn [app]; intro H; [constructor|].
  inversion H as [|? ? Ha HF]; subst. constructor; [|apply IH; exact Ha].
  rewrite Forall_forall in HF. apply HF. apply in_or_app. right. left. reflexivity.
Qed.
(** sorting an already (weakly) sorted chunk changes nothing *)
Lemma sort_values_id (l : list recd) : WSorted l -> sort_values l = l.
Proof.
  unfold sort_values. assert (H : forall acc, WSorted (acc ++ l) -> fold_left (fun acc p => sort_ins p acc) l acc = acc ++ l).
  { induction l as [|p t IH]; intros acc Ha; cbn [fold_left]; [now rewrite app_nil_r|].
    rewrite (sort_ins_last p acc (ws_app_inv acc p t Ha)). rewrite IH; rewrite <- app_assoc; [reflexivity|exact Ha]. }
  apply (H []).
Qed.

Lemma validate_ok n b t d s (ch ch' : list recd) :
  validate_pixels n b t d s ch = Ok ch' -> ch' = if s then sort_values ch else ch.
Proof.
  unfold validate_pixels.
  repeat match goal with |- context [if ?c then Err _ else _] => destruct c end; intro H; inversion H; reflexivity.
Qed.
Lemma check_chunk_ok n o vcheck (ch ch' : list recd) :
  check_chunk n o vcheck ch = Ok ch' -> ch' = if o_sort o then sort_values ch else ch.
Proof.
  unfold check_chunk. destruct (validate_pixels n (o_bounds o) (o_triu o) (o_dup o) (o_sort o) ch) as [c|e] eqn:E; cbn [bind]; [|discriminate].
  apply validate_ok in E. destruct (forallb _ c); intro H; inversion H; subst; reflexivity.
Qed.
(** a chunk that is already sorted by key is written unchanged, whatever the options *)
Lemma check_chunk_sorted n o vcheck (ch ch' : list recd) :
  StronglySorted klt (map fst ch) -> check_chunk n o vcheck ch = Ok ch' -> ch' = ch.
Proof.
  intros HS H. apply check_chunk_ok in H. destruct (o_sort o); [|exact H].
  rewrite H. apply sort_values_id. now apply ssorted_ws.
Qed.

Lemma mapM_ok {A B} (f : A -> res B) l r : mapM f l = Ok r -> Forall2 (fun x y => f x = Ok y) l r.
Proof.
  revert r. induction l as [|x t IH]; intros r H; cbn [mapM] in H.
  - inversion H. constructor.
  - destruct (f x) as [y|e] eqn:Ex; cbn [bind] in H; [|discriminate].
    destruct (mapM f t) as [ys|e] eqn:Et; cbn [bind] in H; [|discriminate].
    inversion H; subst. constructor; [exact Ex|]. now apply IH.
Qed.
Lemma mapM_total {A B} (f : A -> res B) l : Forall (fun x => exists y, f x = Ok y) l -> exists r, mapM f l = Ok r.
Proof.
  induction 1 as [|x t (y & Ey) _ (r & Er)]; cbn [mapM]; [eexists; reflexivity|].
  rewrite Ey, Er. cbn [bind]. eexists; reflexivity.
Qed.
End Sorting.

(* ================================================================== F. create / merge pass / unordered ingestion *)
Section Unordered.
Context {V : Type}.
Notation recd := (key * V)%type.
Variables (n : nat) (o : copts) (vcheck : V -> bool) (agg : list V -> V).

Lemma create_g_ok (chunks : list (list recd)) m : create_g n o vcheck chunks = Ok m ->
  exists cs, Forall2 (fun ch ch' => check_chunk (Z.of_nat n) o vcheck ch = Ok ch') chunks cs /\ m = mk_cool n (concat cs).
Proof.
  unfold create_g. destruct (mapM _ chunks) as [cs|e] eqn:E; cbn [bind]; [|discriminate].
  intro H; inversion H; subst. exists cs. split; [now apply mapM_ok|reflexivity].
Qed.
Lemma create_g_sorted (chunks : list (list recd)) m :
  Forall (fun ch => StronglySorted klt (map fst ch)) chunks ->
  create_g n o vcheck chunks = Ok m -> m = mk_cool n (concat chunks).
Proof.
  intros HS H. apply create_g_ok in H. destruct H as (cs & F & ->). f_equal. f_equal.
  induction F as [|ch ch' t t' Hc _ IH]; [reflexivity|]. inversion HS; subst. f_equal; [|now apply IH].
  eapply check_chunk_sorted; eauto.
Qed.

Lemma merger_epochs_sorted (inputs : list (mcool V)) part : forall starts,
  Forall (fun e => StronglySorted klt (map fst e)) (merger_epochs agg inputs starts part).
Proof.
  induction part as [|b rest IH]; intros starts; cbn [merger_epochs]; [constructor|].
  destruct (epoch_frames inputs starts _) as [|r fr]; [apply IH|]. constructor; [apply groupby_agg_sorted|apply IH].
Qed.

(** one merge pass (CoolerMerger + create) over valid inputs writes exactly the group-by aggregate *)
Lemma merge_g_exact (inputs : list (mcool V)) buf m :
  (1 <= n)%nat -> 0 <= buf -> Forall (ValidIn n) inputs ->
  merge_g n o vcheck agg inputs buf = Ok m ->
  inputs <> [] /\ m = mk_cool n (groupby_agg agg (allpx inputs)).
Proof.
  intros Hn Hb HV H. destruct inputs as [|c0 t] eqn:Ei; [discriminate|]. rewrite <- Ei in *.
  assert (Hne : inputs <> []) by (rewrite Ei; discriminate). split; [exact Hne|].
  assert (H' : bind (cooler_merger agg inputs buf) (create_g n o vcheck) = Ok m) by (rewrite Ei in *; exact H).
  destruct (merger_exact agg n inputs buf Hne Hn HV Hb) as (eps & E & Ec & _). rewrite E in H'. cbn [bind] in H'.
  apply create_g_sorted in H'; [now rewrite H', Ec|].
  unfold cooler_merger in E. destruct (merge_breakpoints_auto _ _) as [p|e]; cbn [bind] in E; [|discriminate].
  inversion E. apply merger_epochs_sorted.
Qed.

(** admissible edge list of the first merge pass over k chunks: 0 = e0 < e1 < ... < em = k *)
Definition Admissible (k : nat) (e : list nat) : Prop :=
  hd 1%nat e = O /\ last e O = k /\ StronglySorted lt e.

Lemma firstn_add {A} (l : list A) x y : firstn (x + y) l = firstn x l ++ firstn y (skipn x l).
Proof.
  revert l. induction x as [|x IH]; intros l; [reflexivity|].
  destruct l as [|a l]; cbn [plus firstn skipn app]; [now rewrite firstn_nil|]. now rewrite IH.
Qed.
Lemma skipn_add {A} (l : list A) x y : skipn (x + y) l = skipn y (skipn x l).
Proof.
  revert l. induction x as [|x IH]; intros l; [reflexivity|].
  destruct l as [|a l]; cbn [plus skipn]; [now rewrite skipn_nil|]. apply IH.
Qed.
Lemma nslice_app {A} (l : list A) a b c : (a <= b <= c)%nat -> nslice l a b ++ nslice l b c = nslice l a c.
Proof.
  intros H. unfold nslice. replace (c - a)%nat with ((b - a) + (c - b))%nat by lia.
  rewrite firstn_add. f_equal. f_equal. rewrite <- skipn_add. f_equal. lia.
Qed.
Lemma pairs_tile_from {A} (l : list A) rest : forall a, StronglySorted lt (a :: rest) ->
  concat (map (fun lh => nslice l (fst lh) (snd lh)) (pairs (a :: rest))) = nslice l a (last rest a).
Proof.
  induction rest as [|b rest IH]; intros a HS.
  - cbn. unfold nslice. now rewrite Nat.sub_diag.
  - change (pairs (a :: b :: rest)) with ((a, b) :: pairs (b :: rest)). cbn [map concat fst snd].
    inversion HS as [|? ? HS' HF]; subst. rewrite (IH b HS').
    assert (a < b)%nat by (inversion HF; assumption).
    assert (b <= last rest b)%nat.
    { apply ssorted_le_last. clear -HS'. induction HS' as [|x l H IH HF]; constructor; [exact IH|].
      eapply Forall_impl; [|exact HF]. cbn. intros; lia. }
    rewrite nslice_app by lia. f_equal. symmetry. apply last_cons_default.
Qed.
Lemma pairs_tile {A} (l : list A) e : Admissible (length l) e ->
  concat (map (fun lh => nslice l (fst lh) (snd lh)) (pairs e)) = l.
Proof.
  intros (H0 & Hl & HS). destruct e as [|a rest]; [cbn in H0; lia|]. cbn [hd] in H0. subst a.
  rewrite (pairs_tile_from l rest O HS).
  assert (last rest O = length l) by (rewrite <- Hl; symmetry; apply last_cons_default).
  unfold nslice. rewrite H, Nat.sub_0_r. cbn [skipn]. apply firstn_all.
Qed.
Lemma pairs_bounds rest : forall a k, StronglySorted lt (a :: rest) -> (last rest a <= k)%nat ->
  Forall (fun lh => (fst lh < snd lh <= k)%nat) (pairs (a :: rest)).
Proof.
  induction rest as [|b rest IH]; intros a k HS Hk; [constructor|].
  change (pairs (a :: b :: rest)) with ((a, b) :: pairs (b :: rest)).
  inversion HS as [|? ? HS' HF]; subst. assert (a < b)%nat by (inversion HF; assumption).
  assert (Hl : last (b :: rest) a = last rest b) by apply last_cons_default. rewrite Hl in Hk.
  assert (b <= last rest b)%nat.
  { apply ssorted_le_last. clear -HS'. induction HS' as [|x l H IH' HF]; constructor; [exact IH'|].
    eapply Forall_impl; [|exact HF]. cbn. intros; lia. }
  constructor; [cbn [fst snd]; lia|]. apply IH; assumption.
Qed.

Lemma forall2_length {A B} (P : A -> B -> Prop) l r : Forall2 P l r -> length l = length r.
Proof. induction 1; cbn [length]; congruence. Qed.
Lemma forall2_map {A B} (f : A -> B) l r : Forall2 (fun x y => y = f x) l r -> r = map f l.
Proof. induction 1 as [|x y l r E _ IH]; [reflexivity|]. cbn [map]. now rewrite E, IH. Qed.
Lemma forall2_impl {A B} (P Q : A -> B -> Prop) l r :
  (forall x y, In x l -> P x y -> Q x y) -> Forall2 P l r -> Forall2 Q l r.
Proof.
  intros H F. induction F as [|x y l r Hp _ IH]; constructor.
  - apply H; [left; reflexivity|exact Hp].
  - apply IH. intros; apply H; [right|]; assumption.
Qed.
Lemma in_firstn' {A} (x : A) k l : In x (firstn k l) -> In x l.
Proof. revert l. induction k as [|k IH]; intros [|a l] H; cbn [firstn] in H; try contradiction. destruct H; [now left|right; now apply IH]. Qed.
Lemma in_skipn' {A} (x : A) k l : In x (skipn k l) -> In x l.
Proof. revert l. induction k as [|k IH]; intros [|a l] H; cbn [skipn] in H; try contradiction; try exact H. right; now apply IH. Qed.
Lemma forall_nslice {A} (P : A -> Prop) l a b : Forall P l -> Forall P (nslice l a b).
Proof.
  intros H. unfold nslice. rewrite Forall_forall in *. intros x Hx. apply H.
  apply in_firstn' in Hx. eapply in_skipn'; exact Hx.
Qed.

(** properties of the aggregation function that chunk-order independence and the two-level merge need;
    both hold for the integer sum (below) *)
Hypothesis agg_perm : forall l l' : list recd, Permutation l l' -> groupby_agg agg l = groupby_agg agg l'.
Hypothesis agg_two_level : forall Gs : list (list recd),
  groupby_agg agg (concat (map (groupby_agg agg) Gs)) = groupby_agg agg (concat Gs).

Lemma allpx_concat (Gs : list (list (mcool V))) : allpx (concat Gs) = concat (map allpx Gs).
Proof. induction Gs as [|G t IH]; [reflexivity|]. cbn [concat map]. now rewrite allpx_app, IH. Qed.

(** C06 theorem 1 (partial correctness, any options, any dtype check): whenever the unordered ingestion of
    chunks that are each sorted by bin1_id (or with ensure_sorted) and in range succeeds, the stored table
    is the group-by aggregate of all records of all chunks, together with its index -- for every mergebuf
    >= 0 and for a single pass as well as for every admissible edge list of the first merge pass *)
Theorem unordered_exact (chunks : list (list recd)) buf edges m :
  (1 <= n)%nat -> 0 <= buf ->
  Forall (fun ch => (o_sort o = true \/ RowSorted ch) /\ Forall (fun p => 0 <= rowof p < Z.of_nat n) ch) chunks ->
  match edges with Some e => Admissible (length chunks) e | None => True end ->
  unordered_g n o vcheck agg chunks buf edges = Ok m ->
  m = mk_cool n (groupby_agg agg (concat chunks)).
Proof.
  intros Hn Hb HC HE H. unfold unordered_g in H.
  destruct (mapM _ chunks) as [temps|e] eqn:E1; cbn [bind] in H; [|discriminate].
  apply mapM_ok in E1.
  (* every temporary cooler is a valid input holding a permutation of its chunk *)
  assert (T : Forall2 (fun ch t => ValidIn n t /\ Permutation ch (mc_px t)) chunks temps).
  { eapply forall2_impl; [|exact E1]. intros ch t Hin Hc. cbn beta in Hc.
    rewrite Forall_forall in HC. destruct (HC ch Hin) as (Hs & Hr).
    apply create_g_ok in Hc. destruct Hc as (cs & F & ->).
    inversion F as [|? ch' ? ? Hch F']; subst. inversion F'; subst. cbn [concat mk_cool mc_px]. rewrite app_nil_r.
    apply check_chunk_ok in Hch.
    assert (HP : Permutation ch ch') by (rewrite Hch; destruct (o_sort o); [apply sort_values_perm|reflexivity]).
    split; [|exact HP]. constructor; cbn [mc_off mc_px]; [reflexivity| |eapply Permutation_Forall; eauto].
    destruct (o_sort o) eqn:Es; rewrite Hch; [apply ws_rowsorted, sort_values_ws|]. destruct Hs; [discriminate|assumption]. }
  assert (TV : Forall (ValidIn n) temps).
  { clear -T. induction T as [|? ? ? ? (Hv & _) _ IH]; constructor; assumption. }
  assert (TP : Permutation (concat chunks) (allpx temps)).
  { clear -T. unfold allpx. induction T as [|? ? ? ? (_ & Hp) _ IH]; [reflexivity|]. cbn [map concat]. now apply Permutation_app. }
  assert (TL : length temps = length chunks) by (symmetry; eapply forall2_length; exact E1).
  destruct edges as [e|].
  - destruct (mapM _ (pairs e)) as [finals|e'] eqn:E2; cbn [bind] in H; [|discriminate].
    apply mapM_ok in E2.
    assert (F2 : Forall2 (fun lh f => f = mk_cool n (groupby_agg agg (allpx (nslice temps (fst lh) (snd lh))))) (pairs e) finals).
    { eapply forall2_impl; [|exact E2]. intros lh f _ Hm. cbn beta in Hm.
      apply merge_g_exact in Hm; [tauto|assumption|assumption|]. now apply forall_nslice. }
    apply forall2_map in F2.
    assert (FV : Forall (ValidIn n) finals).
    { rewrite F2. rewrite Forall_map. apply Forall_forall. intros lh _. apply valid_merged. now apply forall_nslice. }
    apply merge_g_exact in H; [|assumption|assumption|assumption]. destruct H as (_ & ->). f_equal.
    assert (EA : allpx finals = concat (map (groupby_agg agg) (map (fun lh => allpx (nslice temps (fst lh) (snd lh))) (pairs e)))).
    { rewrite F2. unfold allpx at 1. rewrite !map_map. cbn [mc_px mk_cool]. reflexivity. }
    rewrite EA, agg_two_level. rewrite <- (map_map (fun lh => nslice temps (fst lh) (snd lh)) allpx), <- allpx_concat.
    rewrite pairs_tile by (rewrite TL; exact HE). symmetry. now apply agg_perm.
  - cbn [bind] in H. apply merge_g_exact in H; [|assumption|assumption|assumption]. destruct H as (_ & ->). f_equal.
    symmetry. now apply agg_perm.
Qed.
End Unordered.

(* ================================================================== G. C06 for the count column (sum) *)

Lemma aggregate_app_agg_r l1 l2 : aggregate (l1 ++ aggregate l2) = aggregate (l1 ++ l2).
Proof.
  rewrite (aggregate_perm _ _ (Permutation_app_comm l1 (aggregate l2))), aggregate_app_agg.
  apply aggregate_perm, Permutation_app_comm.
Qed.
Lemma sum_perm (l l' : list pixel) : Permutation l l' -> groupby_agg sumZ l = groupby_agg sumZ l'.
Proof. intros H. rewrite !groupby_sum_aggregate. now apply aggregate_perm. Qed.
Lemma sum_two_level (Gs : list (list pixel)) :
  groupby_agg sumZ (concat (map (groupby_agg sumZ) Gs)) = groupby_agg sumZ (concat Gs).
Proof.
  rewrite !groupby_sum_aggregate.
  replace (map (groupby_agg sumZ) Gs) with (map aggregate Gs) by (apply map_ext; intro; symmetry; apply groupby_sum_aggregate).
  induction Gs as [|G t IH]; [reflexivity|]. cbn [map concat].
  rewrite aggregate_app_agg, <- aggregate_app_agg_r, IH, aggregate_app_agg_r. reflexivity.
Qed.

(** C06 theorem 1 for counts: a successful unordered ingestion stores exactly the in-memory aggregate of
    all records, for every chunking, every mergebuf >= 0, one pass or any admissible two-pass edge list,
    and whatever validation options / dtype check are in force *)
Theorem unordered_eq_aggregate n o vcheck (chunks : list (list pixel)) buf edges m :
  (1 <= n)%nat -> 0 <= buf ->
  Forall (fun ch => (o_sort o = true \/ RowSorted ch) /\ Forall (fun p => 0 <= rowof p < Z.of_nat n) ch) chunks ->
  match edges with Some e => Admissible (length chunks) e | None => True end ->
  unordered_g n o vcheck sumZ chunks buf edges = Ok m ->
  mc_px m = aggregate (concat chunks) /\ mc_off m = index_of n (mc_px m) /\
  total (mc_px m) = total (concat chunks).
Proof.
  intros Hn Hb HC HE H.
  rewrite (unordered_exact n o vcheck sumZ sum_perm sum_two_level chunks buf edges m Hn Hb HC HE H).
  cbn [mc_px mc_off mk_cool]. rewrite groupby_sum_aggregate. split; [reflexivity|]. split; [reflexivity|apply total_aggregate].
Qed.

(** independence of the partition into chunks, of the chunk order, of mergebuf and of one vs two passes:
    two successful ingestions of the same multiset of records give the same file content *)
Corollary unordered_independent n o o' vc vc' (chunks chunks' : list (list pixel)) buf buf' edges edges' m m' :
  (1 <= n)%nat -> 0 <= buf -> 0 <= buf' ->
  Permutation (concat chunks) (concat chunks') ->
  Forall (fun ch => (o_sort o = true \/ RowSorted ch) /\ Forall (fun p => 0 <= rowof p < Z.of_nat n) ch) chunks ->
  Forall (fun ch => (o_sort o' = true \/ RowSorted ch) /\ Forall (fun p => 0 <= rowof p < Z.of_nat n) ch) chunks' ->
  match edges with Some e => Admissible (length chunks) e | None => True end ->
  match edges' with Some e => Admissible (length chunks') e | None => True end ->
  unordered_g n o vc sumZ chunks buf edges = Ok m ->
  unordered_g n o' vc' sumZ chunks' buf' edges' = Ok m' -> m = m'.
Proof.
  intros Hn Hb Hb' HP HC HC' HE HE' H H'.
  rewrite (unordered_exact n o vc sumZ sum_perm sum_two_level chunks buf edges m Hn Hb HC HE H).
  rewrite (unordered_exact n o' vc' sumZ sum_perm sum_two_level chunks' buf' edges' m' Hn Hb' HC' HE' H').
  f_equal. now apply sum_perm.
Qed.

(* ---- the edge list computed by create_from_unordered *)
Lemma ssorted_map_seq (f : nat -> nat) len : forall a,
  (forall i j, (a <= i < j)%nat -> (j < a + len)%nat -> (f i < f j)%nat) ->
  StronglySorted lt (map f (seq a len)).
Proof.
  induction len as [|len IH]; intros a H; cbn [seq map]; constructor.
  - apply IH. intros i j Hij Hj. apply H; lia.
  - rewrite Forall_map. apply Forall_forall. intros j Hj. apply in_seq in Hj. apply H; lia.
Qed.
Lemma div_step i n d : (1 <= d <= n)%nat -> (i * n / d < (i + 1) * n / d)%nat.
Proof.
  intros H. replace ((i + 1) * n)%nat with (i * n + n)%nat by lia.
  apply Nat.lt_le_trans with ((i * n + 1 * d) / d)%nat.
  - rewrite Nat.div_add by lia. lia.
  - apply Nat.div_le_mono; lia.
Qed.
Lemma div_mono_strict n d : (1 <= d <= n)%nat -> forall i j, (i < j)%nat -> (i * n / d < j * n / d)%nat.
Proof.
  intros H i j Hij. induction Hij as [|j Hij IH].
  - replace (S i) with (i + 1)%nat by lia. now apply div_step.
  - eapply Nat.lt_trans; [exact IH|]. replace (S j) with (j + 1)%nat by lia. now apply div_step.
Qed.

(** C06 theorem 3: the edge list of the first merge pass (k = max(isqrt n, 2) points i*n/(k-1), exact floor)
    is admissible for every n >= 1 chunks; in particular for n = 2, 3 (defect D9 before the repair) *)
Theorem two_pass_edges_ok n : (1 <= n)%nat -> Admissible n (linspace_int n (Nat.max (Nat.sqrt n) 2)).
Proof.
  intros Hn. remember (Nat.max (Nat.sqrt n) 2) as k eqn:Ek.
  assert (Hk : (2 <= k)%nat) by (subst k; lia).
  assert (Hkn : (k - 1 <= n)%nat).
  { subst k. pose proof (Nat.sqrt_le_lin n). lia. }
  clear Ek. destruct k as [|[|k']]; try lia.
  unfold linspace_int, Admissible. replace (S (S k') - 1)%nat with (S k') in * by lia.
  split; [|split].
  - cbn [seq map hd]. reflexivity.
  - rewrite seq_S, map_app. cbn [map]. rewrite last_last. cbn [plus]. rewrite Nat.mul_comm. apply Nat.div_mul. lia.
  - apply ssorted_map_seq. intros i j Hij _. apply div_mono_strict; lia.
Qed.
Corollary unordered_edges_ok n mm : (1 <= n)%nat ->
  match unordered_edges n mm with Some e => Admissible n e | None => True end.
Proof. intros Hn. unfold unordered_edges. destruct (_ && _); [now apply two_pass_edges_ok|exact I]. Qed.

(* ================================================================== H. merge_coolers: refusal of incompatible inputs *)

Lemma list_eqb_sound {A} (eqb : A -> A -> bool) : (forall x y, eqb x y = true -> x = y) ->
  forall a b, list_eqb eqb a b = true -> a = b.
Proof.
  intros He. induction a as [|x a IH]; intros [|y b] H; cbn in H; try discriminate; [reflexivity|].
  apply andb_true_iff in H. destruct H as (H1 & H2). f_equal; [now apply He|now apply IH].
Qed.
Lemma bin_eqb_sound x y : bin_eqb x y = true -> x = y.
Proof. destruct x as [[a b] c], y as [[a' b'] c']. unfold bin_eqb, bchrom, bstart, bend. cbn [fst snd]. intro H. repeat f_equal; lia. Qed.
Lemma pair_eqb_sound (x y : Z * Z) : pair_eqb x y = true -> x = y.
Proof. destruct x, y. unfold pair_eqb. cbn [fst snd]. intro H. f_equal; lia. Qed.
Lemma opt_eqb_sound a b : opt_eqb a b = true -> a = b.
Proof. destruct a, b; cbn; intro H; try discriminate; [f_equal; lia|reflexivity]. Qed.
Lemma map_snd_combine {A B} (l : list A) (r : list B) : length l = length r -> map snd (combine l r) = r.
Proof. revert r. induction l as [|x l IH]; intros [|y r] H; cbn in *; try discriminate; [reflexivity|]. f_equal. apply IH. lia. Qed.

(** what CoolerMerger.__init__ accepts really has the same axes: same chromosome names and the same bin
    table.  For the fixed-bin-size branch (which compares only bin size, names and chromosome lengths) this
    uses C20: a valid table that reports bin size b is determined by its chromosome lengths. *)
Theorem compatible_same_axes c0 c blocks0 blocks :
  c_bins c0 = concat blocks0 -> c_bins c = concat blocks -> ValidBlocks blocks0 -> ValidBlocks blocks ->
  compatible c0 c = true -> c_bins c = c_bins c0 /\ c_names c = c_names c0.
Proof.
  intros E0 E V0 V1 H. unfold compatible in H. destruct (get_binsize (c_bins c0)) as [b|] eqn:Eb.
  - apply andb_true_iff in H. destruct H as (H & H3). apply andb_true_iff in H. destruct H as (H1 & H2).
    apply opt_eqb_sound in H1. apply (list_eqb_sound Z.eqb) in H2; [|intros x y Hxy; lia].
    apply (list_eqb_sound pair_eqb pair_eqb_sound) in H3. split; [|exact H2].
    rewrite E0, E in *. rewrite !chromsizes_spec in H3 by assumption.
    assert (HL : length blocks = length blocks0).
    { apply (f_equal (@length _)) in H3. rewrite !combine_length, !zrange_length, !map_length in H3. lia. }
    apply (f_equal (map snd)) in H3. rewrite !map_snd_combine in H3 by (now rewrite zrange_length, map_length).
    f_equal. apply (fixed_table_determined blocks blocks0 b); auto.
  - apply andb_true_iff in H. destruct H as (H1 & H2).
    apply (list_eqb_sound Z.eqb) in H1; [|intros x y Hxy; lia].
    apply (list_eqb_sound bin_eqb bin_eqb_sound) in H2. split; assumption.
Qed.

Lemma forallb_same_symm (inputs : list cooler) c0 : In c0 inputs ->
  forallb c_symm inputs || forallb (fun c => negb (c_symm c)) inputs = true ->
  Forall (fun c => c_symm c = c_symm c0) inputs.
Proof.
  intros Hin H. apply orb_true_iff in H. rewrite !forallb_forall in H. apply Forall_forall. intros c Hc.
  destruct H as [H|H]; pose proof (H c Hc) as A; pose proof (H c0 Hin) as B.
  - congruence.
  - destruct (c_symm c), (c_symm c0); cbn in *; congruence.
Qed.

(** C07 theorem 4: whenever merge_coolers produces an output, every input has the storage mode of the first
    and passed the compatibility test against the first; the output carries the first input's axes *)
Theorem refuse_incompatible inputs buf columns dtypes aggs c :
  merge_coolers inputs buf columns dtypes aggs = Ok c ->
  exists c0 rest, inputs = c0 :: rest /\
    Forall (fun ci => c_symm ci = c_symm c0 /\ compatible c0 ci = true) inputs /\
    c_bins c = c_bins c0 /\ c_names c = c_names c0 /\ c_symm c = c_symm c0.
Proof.
  unfold merge_coolers. destruct inputs as [|c0 rest]; [discriminate|]. set (inputs := c0 :: rest).
  destruct (negb _) eqn:Es; [discriminate|]. apply negb_false_iff in Es.
  destruct (all_some (map (fun c1 => all_some (map (col_pos (c_cols c1)) _)) inputs)) as [poss|]; [|discriminate].
  destruct (all_some (map (fun c1 => all_some (map (col_bits (c_cols c1)) _)) inputs)) as [bitss|]; [|discriminate].
  destruct (negb (forallb (compatible c0) inputs)) eqn:Ec; [discriminate|]. apply negb_false_iff in Ec.
  destruct (merge_g _ _ _ _ _ _) as [m|e]; cbn [bind]; [|discriminate].
  intro H. inversion H; subst c. cbn [c_bins c_names c_symm]. exists c0, rest. split; [reflexivity|].
  split; [|repeat split].
  pose proof (forallb_same_symm inputs c0 (or_introl eq_refl) Es) as HS.
  rewrite forallb_forall in Ec. rewrite Forall_forall in *. intros ci Hci. split; [apply HS; exact Hci|apply Ec; exact Hci].
Qed.

Corollary merged_inputs_share_axes inputs buf columns dtypes aggs c :
  merge_coolers inputs buf columns dtypes aggs = Ok c ->
  Forall (fun ci => exists blocks, c_bins ci = concat blocks /\ ValidBlocks blocks) inputs ->
  Forall (fun ci => c_bins ci = c_bins c /\ c_names ci = c_names c /\ c_symm ci = c_symm c) inputs.
Proof.
  intros H HV. destruct (refuse_incompatible _ _ _ _ _ _ H) as (c0 & rest & -> & HF & Eb & En & Es).
  rewrite Forall_forall in *. intros ci Hci. destruct (HF ci Hci) as (S1 & C1).
  destruct (HV ci Hci) as (bl & E1 & V1). destruct (HV c0 (or_introl eq_refl)) as (bl0 & E0 & V0).
  destruct (compatible_same_axes c0 ci bl0 bl E0 E1 V0 V1 C1) as (A & B). rewrite Eb, En, Es. auto.
Qed.

(* ================================================================== I. dtype range: stored = aggregate, or error *)
Section Checked.
Context {V : Type}.
Notation recd := (key * V)%type.

Lemma create_g_checked n o vcheck (chunks : list (list recd)) m :
  create_g n o vcheck chunks = Ok m -> Forall (fun p => vcheck (snd p) = true) (mc_px m).
Proof.
  intro H. apply create_g_ok in H. destruct H as (cs & F & ->). cbn [mc_px mk_cool]. apply Forall_concat.
  induction F as [|ch ch' t t' Hc _ IH]; constructor; [|exact IH].
  unfold check_chunk in Hc. destruct (validate_pixels _ _ _ _ _ ch) as [c|e]; cbn [bind] in Hc; [|discriminate].
  destruct (forallb _ c) eqn:Ef; inversion Hc; subst. rewrite forallb_forall in Ef. apply Forall_forall. exact Ef.
Qed.

(** a merge pass either fails or stores, for every pixel, exactly the aggregate of that pixel's input values,
    and every stored value passed the range check of the output dtype *)
Theorem merge_pass_checked n o vcheck agg (inputs : list (mcool V)) buf :
  (1 <= n)%nat -> 0 <= buf -> Forall (ValidIn n) inputs ->
  match merge_g n o vcheck agg inputs buf with
  | Err _ => True
  | Ok m => mc_px m = groupby_agg agg (allpx inputs) /\
            forall k v, In (k, v) (mc_px m) -> v = agg (vals (allpx inputs) k) /\ vcheck v = true
  end.
Proof.
  intros Hn Hb HV. destruct (merge_g n o vcheck agg inputs buf) as [m|e] eqn:E; [|exact I].
  pose proof E as E'. apply merge_g_exact in E; auto. destruct E as (Hne & ->). cbn [mc_px mk_cool]. split; [reflexivity|].
  intros k v Hin. split; [now apply groupby_agg_value in Hin|].
  destruct inputs as [|c0 t]; [contradiction|]. cbn [merge_g] in E'.
  destruct (cooler_merger agg (c0 :: t) buf) as [eps|e]; cbn [bind] in E'; [|discriminate].
  apply create_g_checked in E'. cbn [mc_px mk_cool] in E'. rewrite Forall_forall in E'. apply (E' (k, v) Hin).
Qed.
End Checked.

Lemma wrap64_id x : - 2 ^ 63 <= x < 2 ^ 63 -> wrap64 x = x.
Proof. intros H. unfold wrap64. rewrite Z.mod_small; lia. Qed.
Lemma wrap64_range x : - 2 ^ 63 <= wrap64 x < 2 ^ 63.
Proof. unfold wrap64. pose proof (Z.mod_pos_bound (x + 2 ^ 63) (2 ^ 64) ltac:(lia)). lia. Qed.
(** the integer sum is exact as long as the exact sum fits int64 (pandas accumulates in int64) *)
Lemma agg_col_sum_exact vs : - 2 ^ 63 <= sumZ vs < 2 ^ 63 -> agg_col ASum vs = sumZ vs.
Proof. apply wrap64_id. Qed.
Lemma fits_spec bits v : fits bits v = true <-> - 2 ^ (bits - 1) <= v <= 2 ^ (bits - 1) - 1.
Proof. unfold fits. lia. Qed.

(* ---- merge_coolers in terms of one checked merge pass *)
Definition mc_columns (columns : option (list Z)) : list Z := match columns with Some l => l | None => [0] end.
Definition mc_ops (columns : option (list Z)) (aggs : list (Z * aggop)) : list aggop :=
  map (fun col => match lookup aggs col with Some op => op | None => ASum end) (mc_columns columns).
Definition as_mcool (c : cooler) : mcool (list Z) := {| mc_off := c_off c; mc_px := c_px c |}.

Theorem merge_coolers_unfold inputs buf columns dtypes aggs c :
  merge_coolers inputs buf columns dtypes aggs = Ok c ->
  exists c0 rest poss out_bits m,
    inputs = c0 :: rest /\
    all_some (map (fun ci => all_some (map (col_pos (c_cols ci)) (mc_columns columns))) inputs) = Some poss /\
    length out_bits = length (mc_columns columns) /\
    merge_g (c_nbins c0) {| o_bounds := true; o_triu := c_symm c0; o_dup := true; o_sort := false |}
            (fits_row out_bits) (agg_row (mc_ops columns aggs))
            (map (fun cp => project (fst cp) (snd cp)) (combine inputs poss)) buf = Ok m /\
    c_px c = mc_px m /\ c_off c = mc_off m /\ c_cols c = combine (mc_columns columns) out_bits /\
    c_sum c = sum_count (mc_columns columns) (mc_px m).
Proof.
  unfold merge_coolers. destruct inputs as [|c0 rest]; [discriminate|]. set (inputs := c0 :: rest).
  destruct (negb _) eqn:Es; [discriminate|]. fold (mc_columns columns).
  destruct (all_some (map (fun c1 => all_some (map (col_pos (c_cols c1)) _)) inputs)) as [poss|] eqn:Ep; [|discriminate].
  destruct (all_some (map (fun c1 => all_some (map (col_bits (c_cols c1)) _)) inputs)) as [bitss|]; [|discriminate].
  destruct (negb (forallb (compatible c0) inputs)) eqn:Ec; [discriminate|].
  match goal with |- context [merge_g _ _ (fits_row ?ob) _ _ _] => set (out_bits := ob) end.
  fold (mc_ops columns aggs).
  destruct (merge_g _ _ _ _ _ _) as [m|e] eqn:Em; cbn [bind]; [|discriminate].
  intro H. inversion H; subst c. cbn [c_px c_off c_cols c_sum].
  exists c0, rest, poss, out_bits, m. repeat split; try reflexivity; try assumption.
  subst out_bits. now rewrite map_length, combine_length, seq_length, Nat.min_id.
Qed.

Lemma filter_rows_map {A B} (f : A -> B) (l : list (key * A)) b :
  length (filter (fun p => fst (fst p) <? b) (map (fun p => (fst p, f (snd p))) l))
  = length (filter (fun p => fst (fst p) <? b) l).
Proof.
  induction l as [|[[i j] v] t IH]; [reflexivity|]. simpl. destruct (i <? b); simpl; rewrite IH; reflexivity.
Qed.
Lemma project_valid n (c : cooler) poss : ValidIn n (as_mcool c) -> ValidIn n (project c poss).
Proof.
  intros [Ho Hs Hr]. cbn [as_mcool mc_off mc_px] in *. unfold project. constructor; cbn [mc_off mc_px].
  - rewrite Ho. unfold index_of. apply map_ext. intro b. unfold zlen. f_equal. symmetry. apply (filter_rows_map (fun r : list Z => map (fun i => nth i r 0) poss)).
  - unfold RowSorted in *. rewrite map_map. exact Hs.
  - rewrite Forall_map. exact Hr.
Qed.

Lemma agg_row_nth ops rows j op : nth_error ops j = Some op ->
  nth j (agg_row ops rows) 0 = agg_col op (map (fun r => nth j r 0) rows).
Proof.
  intro H. unfold agg_row. apply nth_error_nth.
  assert (Hc : nth_error (combine (seq 0 (length ops)) ops) j = Some (j, op)).
  { assert (Hj : (j < length ops)%nat) by (apply nth_error_Some; congruence).
    replace (j, op) with ((0 + j)%nat, op) by reflexivity.
    clear -H Hj. revert j H Hj. generalize O. induction ops as [|a ops IH]; intros s j H Hj; [cbn in Hj; lia|].
    destruct j as [|j]; cbn [length seq combine nth_error] in *.
    - inversion H. now rewrite Nat.add_0_r.
    - rewrite (IH (S s) j H ltac:(lia)). do 2 f_equal. lia. }
  rewrite (map_nth_error _ _ _ Hc). reflexivity.
Qed.

Lemma all_some_length {A} (l : list (option A)) : forall r, all_some l = Some r -> length r = length l.
Proof.
  induction l as [|[x|] t IH]; intros r H; cbn [all_some] in H; [inversion H; reflexivity| |discriminate].
  destruct (all_some t) as [r'|]; cbn in H; [|discriminate]. inversion H. cbn [length]. f_equal. now apply IH.
Qed.

(** C07 theorem 5 (guarded form): merge_coolers either fails or stores, for every pixel, the row of per-column
    aggregates of that pixel's values over the inputs (in the model's machine arithmetic: sums accumulate in
    int64), and every stored value lies in the range of its output dtype.  With [agg_col_sum_exact]: a stored
    sum equals the exact integer sum whenever the exact sum fits int64. *)
Theorem no_silent_overflow inputs buf columns dtypes aggs :
  0 <= buf -> (1 <= c_nbins (hd {| c_names := []; c_bins := []; c_symm := true; c_cols := []; c_off := []; c_px := []; c_sum := 0 |} inputs))%nat ->
  Forall (fun ci => ValidIn (c_nbins (hd ci inputs)) (as_mcool ci)) inputs ->
  match merge_coolers inputs buf columns dtypes aggs with
  | Err _ => True
  | Ok c => exists projected,
      Forall2 (fun ci pi => map fst (mc_px pi) = map fst (c_px ci) /\ mc_off pi = c_off ci) inputs projected /\
      c_px c = groupby_agg (agg_row (mc_ops columns aggs)) (allpx projected) /\
      forall k row, In (k, row) (c_px c) ->
        row = agg_row (mc_ops columns aggs) (vals (allpx projected) k) /\
        fits_row (map snd (c_cols c)) row = true
  end.
Proof.
  intros Hb Hn HV. destruct (merge_coolers inputs buf columns dtypes aggs) as [c|e] eqn:E; [|exact I].
  apply merge_coolers_unfold in E. destruct E as (c0 & rest & poss & ob & m & -> & Ep & Hl & Em & E1 & E2 & E3 & E4).
  cbn [hd] in *. set (inputs := c0 :: rest) in *.
  set (projected := map (fun cp => project (fst cp) (snd cp)) (combine inputs poss)) in *.
  assert (Lp : length poss = length inputs) by (apply all_some_length in Ep; now rewrite map_length in Ep).
  assert (PV : Forall (ValidIn (c_nbins c0)) projected).
  { subst projected. rewrite Forall_map. apply Forall_forall. intros [ci ps] Hin. cbn [fst snd].
    apply project_valid. apply in_combine_l in Hin. rewrite Forall_forall in HV. apply (HV ci Hin). }
  pose proof (merge_pass_checked (c_nbins c0) {| o_bounds := true; o_triu := c_symm c0; o_dup := true; o_sort := false |} (fits_row ob) (agg_row (mc_ops columns aggs)) projected buf Hn Hb PV) as MP.
  rewrite Em in MP. destruct MP as (MP1 & MP2). exists projected. split; [|split].
  - subst projected. clear -Lp. revert poss Lp. induction inputs as [|a t IH]; intros [|p ps] Lp; cbn in Lp; try discriminate; cbn [combine map]; constructor.
    + unfold project. cbn [mc_px mc_off fst snd]. rewrite map_map. cbn [fst]. split; reflexivity.
    + apply IH. lia.
  - now rewrite E1.
  - intros k row Hin. rewrite E1 in Hin. destruct (MP2 k row Hin) as (A & B). split; [exact A|].
    rewrite E3, map_snd_combine by (symmetry; exact Hl). exact B.
Qed.

(* ================================================================== J. no spurious failure of an unordered ingestion *)
Section Total.
Context {V : Type}.
Notation recd := (key * V)%type.
Variables (n : nat) (o : copts) (agg : list V -> V).

(** what the validator demands of a key under the options in force *)
Definition KeyOK (k : key) : Prop :=
  (o_bounds o = true -> 0 <= fst k < Z.of_nat n /\ 0 <= snd k < Z.of_nat n) /\
  (o_triu o = true -> fst k <= snd k).

Lemma existsb_false_forall {A} (f : A -> bool) l : existsb f l = false <-> Forall (fun x => f x = false) l.
Proof.
  induction l as [|x l IH]; cbn [existsb]; [split; [constructor|reflexivity]|].
  rewrite orb_false_iff, IH. split; [intros (A1 & A2); constructor; assumption|intros H; inversion H; auto].
Qed.

Lemma validate_total (ch : list recd) :
  Forall (fun p => KeyOK (fst p)) ch -> (o_dup o = true -> has_dup ch = false) ->
  exists ch', validate_pixels (Z.of_nat n) (o_bounds o) (o_triu o) (o_dup o) (o_sort o) ch = Ok ch'.
Proof.
  intros HK HD. unfold validate_pixels.
  assert (B1 : o_bounds o && existsb (fun p : Z * Z * V => (fst (fst p) <? 0) || (snd (fst p) <? 0)) ch = false).
  { destruct (o_bounds o) eqn:Eb; [|reflexivity]. cbn [andb]. apply existsb_false_forall.
    eapply Forall_impl; [|exact HK]. intros p (Hb & _). specialize (Hb Eb). unfold key in *. lia. }
  assert (B2 : o_bounds o && existsb (fun p : Z * Z * V => (Z.of_nat n <=? fst (fst p)) || (Z.of_nat n <=? snd (fst p))) ch = false).
  { destruct (o_bounds o) eqn:Eb; [|reflexivity]. cbn [andb]. apply existsb_false_forall.
    eapply Forall_impl; [|exact HK]. intros p (Hb & _). specialize (Hb Eb). unfold key in *. lia. }
  assert (B3 : o_triu o && existsb (fun p : Z * Z * V => snd (fst p) <? fst (fst p)) ch = false).
  { destruct (o_triu o) eqn:Eb; [|reflexivity]. cbn [andb]. apply existsb_false_forall.
    eapply Forall_impl; [|exact HK]. intros p (_ & Ht). specialize (Ht Eb). unfold key in *. lia. }
  assert (B4 : o_dup o && has_dup ch = false) by (destruct (o_dup o); [cbn; now apply HD|reflexivity]).
  rewrite B1, B2, B3, B4. eexists; reflexivity.
Qed.

Lemma validate_keyok (ch ch' : list recd) :
  validate_pixels (Z.of_nat n) (o_bounds o) (o_triu o) (o_dup o) (o_sort o) ch = Ok ch' ->
  Forall (fun p => KeyOK (fst p)) ch.
Proof.
  unfold validate_pixels.
  destruct (o_bounds o && existsb (fun p : Z * Z * V => (fst (fst p) <? 0) || (snd (fst p) <? 0)) ch) eqn:B1; [discriminate|].
  destruct (o_bounds o && existsb (fun p : Z * Z * V => (Z.of_nat n <=? fst (fst p)) || (Z.of_nat n <=? snd (fst p))) ch) eqn:B2; [discriminate|].
  destruct (o_triu o && existsb (fun p : Z * Z * V => snd (fst p) <? fst (fst p)) ch) eqn:B3; [discriminate|]. intros _.
  apply Forall_forall. intros p Hp. split.
  - intro Eb. rewrite Eb in B1, B2. cbn [andb] in B1, B2. rewrite existsb_false_forall, Forall_forall in B1, B2.
    specialize (B1 p Hp). specialize (B2 p Hp). cbn beta in *. unfold key in *. lia.
  - intro Et. rewrite Et in B3. cbn [andb] in B3. rewrite existsb_false_forall, Forall_forall in B3.
    specialize (B3 p Hp). cbn beta in *. unfold key in *. lia.
Qed.

Lemma has_dup_sorted (e : list recd) : StronglySorted klt (map fst e) -> has_dup e = false.
Proof.
  induction e as [|p t IH]; cbn [map has_dup]; intro H; [reflexivity|]. inversion H as [|? ? Ht HF]; subst.
  rewrite (IH Ht), orb_false_r. apply existsb_false_forall. rewrite Forall_map in HF.
  eapply Forall_impl; [|exact HF]. intros q Hq. apply keqb_neq. intros E. rewrite E in Hq. now apply (klt_irrefl (fst q)).
Qed.

Lemma check_chunk_total (ch : list recd) :
  Forall (fun p => KeyOK (fst p)) ch -> (o_dup o = true -> has_dup ch = false) ->
  exists ch', check_chunk (Z.of_nat n) o (fun _ => true) ch = Ok ch'.
Proof.
  intros HK HD. unfold check_chunk. destruct (validate_total ch HK HD) as (ch' & ->). cbn [bind].
  replace (forallb (fun _ : recd => true) ch') with true; [eexists; reflexivity|].
  symmetry. apply forallb_forall. reflexivity.
Qed.

Lemma in_concat_keys (eps : list (list recd)) e p : In e eps -> In p e -> In (fst p) (map fst (concat eps)).
Proof. intros He Hp. apply in_map. apply in_concat. exists e. auto. Qed.

Lemma merge_g_nonempty n' o' vc (agg' : list V -> V) (inputs : list (mcool V)) buf : inputs <> [] ->
  merge_g n' o' vc agg' inputs buf = bind (cooler_merger agg' inputs buf) (create_g n' o' vc).
Proof. destruct inputs; [contradiction|reflexivity]. Qed.

(** a merge pass over valid inputs whose keys satisfy the validator cannot fail *)
Lemma merge_g_total (inputs : list (mcool V)) buf :
  (1 <= n)%nat -> 0 <= buf -> inputs <> [] -> Forall (ValidIn n) inputs ->
  Forall (fun p => KeyOK (fst p)) (allpx inputs) ->
  merge_g n o (fun _ => true) agg inputs buf = Ok (mk_cool n (groupby_agg agg (allpx inputs))).
Proof.
  intros Hn Hb Hne HV HK.
  assert (T : exists m, merge_g n o (fun _ => true) agg inputs buf = Ok m).
  { rewrite (merge_g_nonempty n o (fun _ => true) agg inputs buf Hne).
    destruct (merger_exact agg n inputs buf Hne Hn HV Hb) as (eps & E & Ec & _).
    rewrite E. cbn [bind]. unfold create_g.
    assert (S1 : Forall (fun e => StronglySorted klt (map fst e)) eps).
    { unfold cooler_merger in E. destruct (merge_breakpoints_auto _ _); cbn [bind] in E; [|discriminate]. inversion E. apply merger_epochs_sorted. }
    destruct (mapM_total (check_chunk (Z.of_nat n) o (fun _ => true)) eps) as (cs & Ecs).
    { apply Forall_forall. intros e He. apply check_chunk_total.
      - apply Forall_forall. intros p Hp. pose proof (in_concat_keys eps e p He Hp) as Hk.
        rewrite Ec in Hk. apply groupby_agg_keys in Hk. apply in_map_iff in Hk. destruct Hk as (q & Eq & Hq).
        rewrite Forall_forall in HK. rewrite <- Eq. now apply HK.
      - intros _. apply has_dup_sorted. rewrite Forall_forall in S1. now apply S1. }
    rewrite Ecs. cbn [bind]. eexists; reflexivity. }
  destruct T as (m & Em). pose proof Em as Em'. apply merge_g_exact in Em'; auto. destruct Em' as (_ & ->). exact Em.
Qed.
End Total.

Section Total2.
Context {V : Type}.
Notation recd := (key * V)%type.
Variables (n : nat) (o : copts) (agg : list V -> V).
Notation KOK := (fun p : recd => KeyOK n o (fst p)).

Lemma groupby_keyok (l : list recd) : Forall KOK l -> Forall KOK (groupby_agg agg l).
Proof.
  intros H. rewrite Forall_forall in *. intros [k v] Hin.
  assert (Hk : In k (map fst l)). { apply (groupby_agg_keys agg l k). apply in_map_iff. exists (k, v). auto. }
  apply in_map_iff in Hk. destruct Hk as (q & E & Hq). specialize (H q Hq). cbn [fst] in *. rewrite <- E. exact H.
Qed.
Lemma allpx_forall (P : recd -> Prop) (l : list (mcool V)) : Forall (fun t => Forall P (mc_px t)) l -> Forall P (allpx l).
Proof. intros H. unfold allpx. apply Forall_concat. now rewrite Forall_map. Qed.

Lemma nslice_nonempty {A} (l : list A) lo hi : (lo < hi <= length l)%nat -> nslice l lo hi <> [].
Proof.
  intros H E. apply (f_equal (@length A)) in E. unfold nslice in E. rewrite firstn_length, skipn_length in E. cbn in E. lia.
Qed.

(** C06: an unordered ingestion of at least one chunk cannot fail in the merge machinery (no exhausted
    fuel, no IndexError -- defect D9 --, no rejected merge epoch -- defect D16 --), for every mergebuf >= 0,
    single pass or any admissible edge list, provided each input chunk itself is acceptable to the
    validator (keys in range / upper-triangular / duplicate-free as far as the options demand) and sorted
    by bin1_id or sorting is requested.  The dtype range check is taken out of the picture (vcheck = true):
    value overflow is property C07's subject. *)
Theorem unordered_total (chunks : list (list recd)) buf edges :
  (1 <= n)%nat -> 0 <= buf -> chunks <> [] ->
  Forall (fun ch => Forall KOK ch /\ (o_dup o = true -> has_dup ch = false) /\
                    (o_sort o = true \/ RowSorted ch) /\ Forall (fun p => 0 <= rowof p < Z.of_nat n) ch) chunks ->
  match edges with Some e => Admissible (length chunks) e | None => True end ->
  exists m, unordered_g n o (fun _ => true) agg chunks buf edges = Ok m.
Proof.
  intros Hn Hb Hne HC HE. unfold unordered_g.
  destruct (mapM_total (fun ch => create_g n o (fun _ => true) [ch]) chunks) as (temps & E1).
  { eapply Forall_impl; [|exact HC]. intros ch (HK & HD & _). unfold create_g. cbn [mapM].
    destruct (check_chunk_total n o ch HK HD) as (ch' & ->). cbn [bind]. eexists; reflexivity. }
  rewrite E1. cbn [bind]. pose proof (mapM_ok _ _ _ E1) as F1.
  assert (T : Forall2 (fun ch t => ValidIn n t /\ Permutation ch (mc_px t)) chunks temps).
  { eapply forall2_impl; [|exact F1]. intros ch t Hin Hc. cbn beta in Hc.
    rewrite Forall_forall in HC. destruct (HC ch Hin) as (_ & _ & Hs & Hr).
    apply create_g_ok in Hc. destruct Hc as (cs & F & ->).
    inversion F as [|? ch' ? ? Hch F']; subst. inversion F'; subst. cbn [concat mk_cool mc_px]. rewrite app_nil_r.
    apply check_chunk_ok in Hch.
    assert (HP : Permutation ch ch') by (rewrite Hch; destruct (o_sort o); [apply sort_values_perm|reflexivity]).
    split; [|exact HP]. constructor; cbn [mc_off mc_px]; [reflexivity| |eapply Permutation_Forall; eauto].
    destruct (o_sort o) eqn:Es; rewrite Hch; [apply ws_rowsorted, sort_values_ws|]. destruct Hs; [discriminate|assumption]. }
  assert (TV : Forall (ValidIn n) temps).
  { clear -T. induction T as [|? ? ? ? (Hv & _) _ IH]; constructor; assumption. }
  assert (TK : Forall (fun t => Forall KOK (mc_px t)) temps).
  { clear -T HC. induction T as [|ch t ? ? (_ & Hp) _ IH]; constructor.
    - inversion HC as [|? ? (HK & _) _]; subst. eapply Permutation_Forall; eauto.
    - apply IH. inversion HC; assumption. }
  assert (TL : length temps = length chunks) by (symmetry; eapply forall2_length; exact F1).
  assert (Tne : temps <> []) by (intros ->; destruct chunks; [contradiction|discriminate]).
  destruct edges as [e|].
  - destruct HE as (H0 & Hl & HS).
    destruct e as [|a rest]; [cbn in H0; lia|]. cbn [hd] in H0. subst a.
    assert (Hlast : last rest O = length chunks) by (rewrite <- Hl; symmetry; apply last_cons_default).
    pose proof (pairs_bounds rest O (length temps) HS ltac:(lia)) as PB.
    destruct (mapM_total (fun lh => merge_g n o (fun _ => true) agg (nslice temps (fst lh) (snd lh)) buf) (pairs (O :: rest))) as (finals & E2).
    { eapply Forall_impl; [|exact PB]. intros lh Hlh. eexists. apply merge_g_total; auto.
      - now apply nslice_nonempty.
      - now apply forall_nslice.
      - apply allpx_forall. now apply forall_nslice. }
    rewrite E2. cbn [bind]. pose proof (mapM_ok _ _ _ E2) as F2.
    assert (F2' : Forall2 (fun lh f => f = mk_cool n (groupby_agg agg (allpx (nslice temps (fst lh) (snd lh))))) (pairs (O :: rest)) finals).
    { eapply forall2_impl; [|exact F2]. intros lh f _ Hm. cbn beta in Hm.
      apply merge_g_exact in Hm; [tauto|assumption|assumption|]. now apply forall_nslice. }
    apply forall2_map in F2'.
    eexists. apply merge_g_total; auto.
    + rewrite F2'. destruct rest as [|b rest']; [|discriminate].
      cbn in Hlast. destruct chunks; [contradiction|cbn in Hlast; lia].
    + rewrite F2'. rewrite Forall_map. apply Forall_forall. intros lh _. apply valid_merged. now apply forall_nslice.
    + apply allpx_forall. rewrite F2'. rewrite Forall_map. apply Forall_forall. intros lh _. cbn [mc_px mk_cool].
      apply groupby_keyok. apply allpx_forall. now apply forall_nslice.
  - cbn [bind]. eexists. apply merge_g_total; auto. now apply allpx_forall.
Qed.
End Total2.

(** C06, total form for counts: the ingestion succeeds and stores the in-memory aggregate *)
Corollary unordered_correct n o (chunks : list (list pixel)) buf edges :
  (1 <= n)%nat -> 0 <= buf -> chunks <> [] ->
  Forall (fun ch => Forall (fun p => KeyOK n o (fst p)) ch /\ (o_dup o = true -> has_dup ch = false) /\
                    (o_sort o = true \/ RowSorted ch) /\ Forall (fun p => 0 <= rowof p < Z.of_nat n) ch) chunks ->
  match edges with Some e => Admissible (length chunks) e | None => True end ->
  unordered_g n o (fun _ => true) sumZ chunks buf edges = Ok (mk_cool n (aggregate (concat chunks))).
Proof.
  intros Hn Hb Hne HC HE. destruct (unordered_total n o sumZ chunks buf edges Hn Hb Hne HC HE) as (m & Em).
  rewrite Em. f_equal. rewrite <- groupby_sum_aggregate.
  apply (unordered_exact n o (fun _ => true) sumZ sum_perm sum_two_level chunks buf edges m Hn Hb); auto.
  eapply Forall_impl; [|exact HC]. cbn. tauto.
Qed.

(* ================================================================== K. aggregation functions other than the plain sum *)
Section AggLaws.
Context {V : Type}.
Notation recd := (key * V)%type.
Variable agg : list V -> V.

(** equal key sets and key-wise equal aggregates give equal group-by results *)
Lemma groupby_agg_rel (l l' : list recd) :
  (forall k, In k (map fst l) <-> In k (map fst l')) ->
  (forall k, In k (map fst l) -> agg (vals l k) = agg (vals l' k)) ->
  groupby_agg agg l = groupby_agg agg l'.
Proof.
  intros HK HV. unfold groupby_agg.
  destruct (group_canon l) as (S1 & K1 & L1). destruct (group_canon l') as (S2 & K2 & L2).
  assert (F : Forall2 (fun e1 e2 : key * list V => fst e1 = fst e2 /\ agg (snd e1) = agg (snd e2)) (group l) (group l')).
  { apply (gsorted_rel (fun vs vs' => agg vs = agg vs')); auto.
    - intro k. rewrite K1, K2. apply HK.
    - intros k Hk. rewrite L1, L2. apply HV. now apply K1. }
  clear S1 K1 L1 S2 K2 L2. induction F as [|[a b] [c d] t1 t2 (E1 & E2) _ IH]; [reflexivity|]. cbn [map fst snd] in *. now rewrite E1, E2, IH.
Qed.

Lemma vals_perm (l l' : list recd) k : Permutation l l' -> Permutation (vals l k) (vals l' k).
Proof.
  induction 1 as [|p l l' _ IH|p q l|l l' l'' _ IH1 _ IH2].
  - reflexivity.
  - rewrite !vals_cons. now apply Permutation_app_head.
  - rewrite !vals_cons, !app_assoc. apply Permutation_app_tail. apply Permutation_app_comm.
  - eapply Permutation_trans; eauto.
Qed.

Hypothesis agg_perm_inv : forall vs vs', Permutation vs vs' -> agg vs = agg vs'.

(** order independence for any permutation-invariant aggregation *)
Lemma groupby_agg_perm (l l' : list recd) : Permutation l l' -> groupby_agg agg l = groupby_agg agg l'.
Proof.
  intros HP. apply groupby_agg_rel.
  - intro k. split; apply Permutation_in; [|symmetry]; now apply Permutation_map.
  - intros k _. apply agg_perm_inv. now apply vals_perm.
Qed.

Lemma vals_sorted_unique (out : list recd) k v : StronglySorted klt (map fst out) -> In (k, v) out -> vals out k = [v].
Proof.
  induction out as [|[k0 v0] t IH]; intros HS Hin; [contradiction|]. cbn [map fst] in HS. inversion HS as [|? ? HSt HF]; subst.
  rewrite vals_cons. cbn [fst snd]. rewrite Forall_forall in HF. destruct Hin as [E|Hin].
  - inversion E; subst. rewrite keqb_refl, vals_notin; [reflexivity|]. intro X. apply (klt_irrefl k). now apply HF.
  - assert (Hk : In k (map fst t)) by (apply in_map_iff; exists (k, v); auto).
    assert (keqb k0 k = false) as -> by (apply keqb_neq; intros ->; apply (klt_irrefl k); now apply HF).
    cbn [app]. now apply IH.
Qed.
Lemma vals_groupby (G : list recd) k :
  vals (groupby_agg agg G) k = match vals G k with [] => [] | _ => [agg (vals G k)] end.
Proof.
  destruct (in_dec key_eq_dec k (map fst G)) as [Hin|Hnin].
  - assert (Hin' : In k (map fst (groupby_agg agg G))) by now apply groupby_agg_keys.
    apply in_map_iff in Hin'. destruct Hin' as ([k' v] & E & Hp). cbn [fst] in E. subst k'.
    rewrite (vals_sorted_unique _ k v (groupby_agg_sorted agg G) Hp).
    apply groupby_agg_value in Hp. subst v. pose proof (vals_in G k Hin). destruct (vals G k); [contradiction|reflexivity].
  - rewrite (vals_notin G k Hnin). apply vals_notin. intro X. apply Hnin. now apply (groupby_agg_keys agg G k).
Qed.

(** compatibility with a two-level merge: aggregating the per-group aggregates of the non-empty groups
    equals aggregating everything *)
Hypothesis agg_decomp : forall xss : list (list V),
  agg (concat (map (fun xs => match xs with [] => [] | _ => [agg xs] end) xss)) = agg (concat xss).

Lemma vals_concat (Gs : list (list recd)) k : vals (concat Gs) k = concat (map (fun G => vals G k) Gs).
Proof. induction Gs as [|G t IH]; [reflexivity|]. cbn [concat map]. now rewrite vals_app, IH. Qed.

Lemma groupby_agg_two_level (Gs : list (list recd)) :
  groupby_agg agg (concat (map (groupby_agg agg) Gs)) = groupby_agg agg (concat Gs).
Proof.
  apply groupby_agg_rel.
  - intro k. rewrite !concat_map, !in_concat. split.
    + intros (ks & H1 & H2). rewrite map_map in H1. apply in_map_iff in H1. destruct H1 as (G & <- & HG).
      apply groupby_agg_keys in H2. exists (map fst G). split; [now apply in_map|exact H2].
    + intros (ks & H1 & H2). apply in_map_iff in H1. destruct H1 as (G & <- & HG).
      exists (map fst (groupby_agg agg G)). split; [rewrite map_map; apply in_map_iff; exists G; auto|now apply groupby_agg_keys].
  - intros k _. rewrite !vals_concat, map_map.
    rewrite (map_ext _ (fun G => match vals G k with [] => [] | _ => [agg (vals G k)] end)) by (intro; apply vals_groupby).
    rewrite <- (map_map (fun G => vals G k) (fun xs => match xs with [] => [] | _ => [agg xs] end)). apply agg_decomp.
Qed.
End AggLaws.

(* ================================================================== L. the executable multi-column model: rows of int64 sums *)

Lemma sumZ_perm l l' : Permutation l l' -> sumZ l = sumZ l'.
Proof. induction 1; rewrite ?sumZ_cons; try lia. Qed.

Lemma wrap64_mod x : wrap64 x mod 2 ^ 64 = x mod 2 ^ 64.
Proof.
  unfold wrap64. rewrite Zminus_mod, Zmod_mod, <- Zminus_mod. f_equal. lia.
Qed.
Lemma wrap64_congr a b : a mod 2 ^ 64 = b mod 2 ^ 64 -> wrap64 a = wrap64 b.
Proof. intro H. unfold wrap64. rewrite (Zplus_mod a), (Zplus_mod b), H. reflexivity. Qed.
Lemma wrap64_add a b : wrap64 (wrap64 a + b) = wrap64 (a + b).
Proof. apply wrap64_congr. rewrite Zplus_mod, wrap64_mod, <- Zplus_mod. reflexivity. Qed.
Lemma wrap64_add_r a b : wrap64 (a + wrap64 b) = wrap64 (a + b).
Proof. rewrite Z.add_comm, wrap64_add. f_equal. lia. Qed.

(** column level: summing the int64 sums of the non-empty groups = the int64 sum of everything *)
Lemma sum_col_decomp (yss : list (list Z)) :
  agg_col ASum (concat (map (fun ys => match ys with [] => [] | _ => [agg_col ASum ys] end) yss))
  = agg_col ASum (concat yss).
Proof.
  cbn [agg_col]. induction yss as [|ys t IH]; [reflexivity|]. cbn [map concat]. rewrite !sumZ_app.
  destruct ys as [|y ys'].
  - cbn [app]. change (sumZ []) with 0. rewrite !Z.add_0_l. exact IH.
  - set (s := sumZ (y :: ys')) in *. cbn [app]. rewrite sumZ_cons. change (sumZ []) with 0. rewrite Z.add_0_r.
    rewrite <- wrap64_add_r, IH, wrap64_add_r, wrap64_add. reflexivity.
Qed.

Definition sum_ops {A} (cols : list A) : list aggop := map (fun _ => ASum) cols.

Lemma in_combine_seq {A} (ops : list A) : forall s j op,
  In (j, op) (combine (seq s (length ops)) ops) -> (s <= j)%nat /\ nth_error ops (j - s) = Some op.
Proof.
  induction ops as [|a ops IH]; intros s j op Hin; [contradiction|].
  cbn [length seq combine] in Hin. destruct Hin as [E|Hin].
  - inversion E; subst. split; [lia|]. now rewrite Nat.sub_diag.
  - destruct (IH (S s) j op Hin) as (H1 & H2). split; [lia|].
    replace (j - s)%nat with (S (j - S s)) by lia. exact H2.
Qed.
Lemma agg_row_ext ops X Y :
  (forall j op, nth_error ops j = Some op ->
     agg_col op (map (fun r => nth j r 0) X) = agg_col op (map (fun r => nth j r 0) Y)) ->
  agg_row ops X = agg_row ops Y.
Proof.
  intro H. unfold agg_row. apply map_ext_in. intros [j op] Hin. cbn [fst snd]. apply H.
  apply in_combine_seq in Hin. destruct Hin as (_ & Hn). now rewrite Nat.sub_0_r in Hn.
Qed.

Lemma sum_ops_nth {A} (cols : list A) j op : nth_error (sum_ops cols) j = Some op -> op = ASum.
Proof.
  unfold sum_ops. intro H. apply nth_error_In in H. apply in_map_iff in H. destruct H as (? & E & _). now symmetry.
Qed.

(** rows of int64 sums are insensitive to the order of the records ... *)
Lemma sum_rows_perm {A} (cols : list A) (rows rows' : list (list Z)) :
  Permutation rows rows' -> agg_row (sum_ops cols) rows = agg_row (sum_ops cols) rows'.
Proof.
  intro HP. apply agg_row_ext. intros j op Hop. apply sum_ops_nth in Hop. subst op. cbn [agg_col]. f_equal.
  apply sumZ_perm. now apply Permutation_map.
Qed.
(** ... and compatible with a two-level merge *)
Lemma sum_rows_decomp {A} (cols : list A) (xss : list (list (list Z))) :
  agg_row (sum_ops cols) (concat (map (fun xs => match xs with [] => [] | _ => [agg_row (sum_ops cols) xs] end) xss))
  = agg_row (sum_ops cols) (concat xss).
Proof.
  apply agg_row_ext. intros j op Hop. pose proof (sum_ops_nth cols j op Hop) as ->.
  rewrite !concat_map. rewrite <- (sum_col_decomp (map (map (fun r => nth j r 0)) xss)). f_equal.
  rewrite !map_map. f_equal. apply map_ext. intros [|x xs]; [reflexivity|].
  cbn [map]. f_equal. apply (agg_row_nth (sum_ops cols) (x :: xs) j ASum Hop).
Qed.

(** C06 for the executable model: whenever create_from_unordered (all requested integer columns, int64
    accumulation, dtype range checks, validation options) succeeds on chunks that are sorted by bin1_id (or
    with ensure_sorted) and in range, the stored table is the group-by of ALL records with int64 row sums,
    whatever the chunking, mergebuf and max_merge *)
Theorem create_from_unordered_exact names bins symm cols bc tc dc es chunks buf mm c :
  (1 <= length bins)%nat -> 0 <= buf -> chunks <> [] ->
  Forall (fun ch => (es = true \/ RowSorted ch) /\ Forall (fun p => 0 <= rowof p < Z.of_nat (length bins)) ch) chunks ->
  create_from_unordered names bins symm cols bc tc dc es chunks buf mm = Ok c ->
  c_px c = groupby_agg (agg_row (sum_ops cols)) (concat chunks) /\
  c_off c = index_of (length bins) (c_px c) /\ c_bins c = bins /\ c_symm c = symm /\ c_cols c = cols.
Proof.
  intros Hn Hb Hne HC H. unfold create_from_unordered in H.
  destruct (unordered_g _ _ _ _ _ _ _) as [m|e] eqn:E; cbn [bind] in H; [|discriminate].
  inversion H; subst c. cbn [c_px c_off c_bins c_symm c_cols].
  fold (sum_ops cols) in E.
  apply (unordered_exact (length bins) _ _ (agg_row (sum_ops cols))) in E; auto.
  - subst m. cbn [mc_px mc_off mk_cool]. repeat split; reflexivity.
  - apply groupby_agg_perm. intros. now apply sum_rows_perm.
  - apply groupby_agg_two_level. apply sum_rows_decomp.
  - destruct (unordered_edges (length chunks) mm) eqn:Ee; [|exact I].
    pose proof (unordered_edges_ok (length chunks) mm) as HA. rewrite Ee in HA. apply HA.
    destruct chunks; [contradiction|cbn; lia].
Qed.

(** input-order independence for any value type and any permutation-invariant aggregation function *)
Corollary merge_order_independent_gen {V} (agg : list V -> V) n (inputs inputs' : list (mcool V)) buf buf' :
  (forall vs vs', Permutation vs vs' -> agg vs = agg vs') ->
  Permutation inputs inputs' ->
  inputs <> [] -> (1 <= n)%nat -> Forall (ValidIn n) inputs -> 0 <= buf -> 0 <= buf' ->
  merged_px agg inputs buf = merged_px agg inputs' buf'.
Proof.
  intros HA HP Hne Hn HV Hb Hb'.
  assert (Hne' : inputs' <> []) by (intros ->; apply Permutation_sym, Permutation_nil in HP; contradiction).
  assert (HV' : Forall (ValidIn n) inputs') by (eapply Permutation_Forall; eauto).
  rewrite !(merger_groupby agg n) by auto. f_equal.
  apply groupby_agg_perm; [exact HA|]. unfold allpx. apply permutation_concat. now apply Permutation_map.
Qed.

(* ================================================================== M. composition laws  agg (map agg Gs) = agg (concat Gs) *)

(** the three integer aggregations of the model, as plain functions list Z -> Z
    ([agg_col AMax vs] is by definition [fold_right Z.max (hd 0 vs) vs], [agg_col AMin] likewise) *)
Definition lmax (vs : list Z) : Z := agg_col AMax vs.
Definition lmin (vs : list Z) : Z := agg_col AMin vs.

(** exact integer sum: composes without any side condition *)
Lemma sum_compose : forall Gs : list (list Z), sumZ (map sumZ Gs) = sumZ (concat Gs).
Proof. induction Gs as [|G t IH]; [reflexivity|]. cbn [map concat]. now rewrite sumZ_cons, sumZ_app, IH. Qed.
Lemma sum_single v : sumZ [v] = v. Proof. rewrite sumZ_cons. change (sumZ []) with 0. lia. Qed.
(** int64 machine sum (what pandas computes): composes without side condition as well *)
Lemma wsum_compose : forall Gs : list (list Z), agg_col ASum (map (agg_col ASum) Gs) = agg_col ASum (concat Gs).
Proof.
  induction Gs as [|G t IH]; [reflexivity|]. cbn [map concat]. cbn [agg_col] in *. rewrite sumZ_cons, sumZ_app.
  rewrite wrap64_add, <- wrap64_add_r, IH, wrap64_add_r. reflexivity.
Qed.

Section Extremum.
(** a selection function f (max or min) w.r.t. a total order le *)
Variables (f : Z -> Z -> Z) (le : Z -> Z -> Prop).
Hypothesis le_refl : forall a, le a a.
Hypothesis le_trans : forall a b c, le a b -> le b c -> le a c.
Hypothesis le_antisym : forall a b, le a b -> le b a -> a = b.
Hypothesis f_sel : forall a b, f a b = a \/ f a b = b.
Hypothesis f_ub1 : forall a b, le a (f a b).
Hypothesis f_ub2 : forall a b, le b (f a b).

Definition ext (vs : list Z) : Z := fold_right f (hd 0 vs) vs.
Definition IsExt (vs : list Z) (m : Z) : Prop := (vs = [] /\ m = 0) \/ (In m vs /\ forall x, In x vs -> le x m).

Lemma fold_ext_facts d vs : let m := fold_right f d vs in
  (m = d \/ In m vs) /\ le d m /\ forall x, In x vs -> le x m.
Proof.
  induction vs as [|v t (A & B & C)]; cbn [fold_right]; [repeat split; [now left|apply le_refl|intros ? []]|].
  set (r := fold_right f d t) in *. repeat split.
  - destruct (f_sel v r) as [E|E]; rewrite E; [right; now left|]. destruct A as [A|A]; [now left|right; now right].
  - eapply le_trans; [exact B|apply f_ub2].
  - intros x [<-|Hx]; [apply f_ub1|]. eapply le_trans; [now apply C|apply f_ub2].
Qed.
Lemma ext_spec vs : IsExt vs (ext vs).
Proof.
  unfold ext. destruct vs as [|v t]; [left; now split|]. right. cbn [hd].
  destruct (fold_ext_facts v (v :: t)) as (A & B & C). split; [|exact C].
  destruct A as [A|A]; [rewrite A; now left|exact A].
Qed.
Lemma isext_unique vs m m' : IsExt vs m -> IsExt vs m' -> m = m'.
Proof.
  intros [(E & ->)|(I1 & U1)] [(E' & ->)|(I2 & U2)]; subst; try contradiction; try reflexivity.
  apply le_antisym; [now apply U2|now apply U1].
Qed.
Lemma ext_perm vs vs' : Permutation vs vs' -> ext vs = ext vs'.
Proof.
  intros HP. apply (isext_unique vs'); [|apply ext_spec].
  destruct (ext_spec vs) as [(E & ->)|(I1 & U1)].
  - subst. apply Permutation_nil in HP. subst. left; now split.
  - right. split; [eapply Permutation_in; eauto|]. intros x Hx. apply U1. eapply Permutation_in; [symmetry; exact HP|exact Hx].
Qed.
Lemma ext_single v : ext [v] = v.
Proof. unfold ext. cbn. destruct (f_sel v v) as [E|E]; exact E. Qed.
(** composition over non-empty groups *)
Lemma ext_compose : forall Gs : list (list Z), Forall (fun G => G <> []) Gs -> ext (map ext Gs) = ext (concat Gs).
Proof.
  intros Gs HN. apply (isext_unique (concat Gs)); [|apply ext_spec].
  destruct (ext_spec (map ext Gs)) as [(E & ->)|(I1 & U1)].
  - destruct Gs; [left; now split|discriminate].
  - right. apply in_map_iff in I1. destruct I1 as (G & EG & HG). split.
    + apply in_concat. exists G. split; [exact HG|]. rewrite <- EG.
      rewrite Forall_forall in HN. destruct (ext_spec G) as [(E & _)|(I & _)]; [now apply HN in HG|exact I].
    + intros x Hx. apply in_concat in Hx. destruct Hx as (G' & HG' & Hx).
      eapply le_trans; [|apply U1; apply in_map; exact HG'].
      destruct (ext_spec G') as [(E & _)|(_ & U)]; [subst; contradiction|now apply U].
Qed.
End Extremum.

Lemma max_compose : forall Gs : list (list Z), Forall (fun G => G <> []) Gs -> lmax (map lmax Gs) = lmax (concat Gs).
Proof. apply (ext_compose Z.max Z.le); intros; lia. Qed.
Lemma min_compose : forall Gs : list (list Z), Forall (fun G => G <> []) Gs -> lmin (map lmin Gs) = lmin (concat Gs).
Proof. apply (ext_compose Z.min (fun a b => b <= a)); intros; lia. Qed.
Lemma max_perm vs vs' : Permutation vs vs' -> lmax vs = lmax vs'.
Proof. apply (ext_perm Z.max Z.le); intros; lia. Qed.
Lemma min_perm vs vs' : Permutation vs vs' -> lmin vs = lmin vs'.
Proof. apply (ext_perm Z.min (fun a b => b <= a)); intros; lia. Qed.
Lemma max_single v : lmax [v] = v. Proof. apply (ext_single Z.max); intros; lia. Qed.
Lemma min_single v : lmin [v] = v. Proof. apply (ext_single Z.min); intros; lia. Qed.
(** without the non-emptiness side condition the law is false for max/min (an empty group contributes
    the default 0): the witness *)
Lemma max_compose_unguarded_refuted : exists Gs, lmax (map lmax Gs) <> lmax (concat Gs).
Proof. exists [[]; [-5]]. vm_compute. discriminate. Qed.
Lemma min_compose_unguarded_refuted : exists Gs, lmin (map lmin Gs) <> lmin (concat Gs).
Proof. exists [[]; [5]]. vm_compute. discriminate. Qed.

(* ---- from the composition law to the two-level merge, associativity and chunking independence *)
Section Compose.
Context {V : Type}.
Notation recd := (key * V)%type.
Variable agg : list V -> V.
Hypothesis agg_perm_inv : forall vs vs', Permutation vs vs' -> agg vs = agg vs'.
Hypothesis agg_compose : forall Gs : list (list V), Forall (fun G => G <> []) Gs -> agg (map agg Gs) = agg (concat Gs).

Lemma compose_decomp : forall xss : list (list V),
  agg (concat (map (fun xs => match xs with [] => [] | _ => [agg xs] end) xss)) = agg (concat xss).
Proof.
  assert (E1 : forall xss : list (list V),
            concat (map (fun xs => match xs with [] => [] | _ => [agg xs] end) xss)
            = map agg (filter (fun xs : list V => match xs with [] => false | _ => true end) xss)).
  { induction xss as [|[|x xs] t IH]; [reflexivity|exact IH|]. cbn [map concat filter app]. now rewrite IH. }
  assert (E2 : forall xss : list (list V),
            concat xss = concat (filter (fun xs : list V => match xs with [] => false | _ => true end) xss)).
  { induction xss as [|[|x xs] t IH]; [reflexivity|exact IH|]. cbn [concat filter]. now rewrite IH. }
  intros xss. rewrite E1, (E2 xss). apply agg_compose. apply Forall_forall. intros G HG. apply filter_In in HG.
  destruct G; [destruct HG; discriminate|discriminate].
Qed.

Lemma compose_two_level (Gs : list (list recd)) :
  groupby_agg agg (concat (map (groupby_agg agg) Gs)) = groupby_agg agg (concat Gs).
Proof. apply groupby_agg_two_level. exact compose_decomp. Qed.
Lemma compose_perm (l l' : list recd) : Permutation l l' -> groupby_agg agg l = groupby_agg agg l'.
Proof. now apply groupby_agg_perm. Qed.

(** C06 independence for any permutation-invariant aggregation obeying the composition law *)
Theorem unordered_independent_gen n o o' vc vc' (chunks chunks' : list (list recd)) buf buf' edges edges' m m' :
  (1 <= n)%nat -> 0 <= buf -> 0 <= buf' ->
  Permutation (concat chunks) (concat chunks') ->
  Forall (fun ch => (o_sort o = true \/ RowSorted ch) /\ Forall (fun p => 0 <= rowof p < Z.of_nat n) ch) chunks ->
  Forall (fun ch => (o_sort o' = true \/ RowSorted ch) /\ Forall (fun p => 0 <= rowof p < Z.of_nat n) ch) chunks' ->
  match edges with Some e => Admissible (length chunks) e | None => True end ->
  match edges' with Some e => Admissible (length chunks') e | None => True end ->
  unordered_g n o vc agg chunks buf edges = Ok m ->
  unordered_g n o' vc' agg chunks' buf' edges' = Ok m' -> m = m'.
Proof.
  intros Hn Hb Hb' HP HC HC' HE HE' H H'.
  rewrite (unordered_exact n o vc agg compose_perm compose_two_level chunks buf edges m Hn Hb HC HE H).
  rewrite (unordered_exact n o' vc' agg compose_perm compose_two_level chunks' buf' edges' m' Hn Hb' HC' HE' H').
  f_equal. now apply compose_perm.
Qed.

Hypothesis agg_single : forall v, agg [v] = v.

Lemma groupby_single (p : recd) : groupby_agg agg [p] = [p].
Proof. destruct p as [k v]. unfold groupby_agg, group. cbn. now rewrite agg_single. Qed.

(** re-aggregating an already aggregated prefix changes nothing *)
Lemma groupby_app_agg (X Y : list recd) : groupby_agg agg (groupby_agg agg X ++ Y) = groupby_agg agg (X ++ Y).
Proof.
  assert (E1 : forall Y : list recd, concat (map (groupby_agg agg) (map (fun p : recd => [p]) Y)) = Y).
  { induction Y0 as [|p t IH]; [reflexivity|]. cbn [map concat]. now rewrite groupby_single, IH. }
  assert (E2 : forall Y : list recd, concat (map (fun p : recd => [p]) Y) = Y).
  { induction Y0 as [|p t IH]; [reflexivity|]. cbn [map concat app]. now rewrite IH. }
  pose proof (compose_two_level (X :: map (fun p => [p]) Y)) as H. cbn [map concat] in H.
  now rewrite E1, E2 in H.
Qed.

(** C07 associativity for any such aggregation: merge [merge xs; ys] = merge (xs ++ ys) *)
Theorem merge_assoc_gen n (xs ys : list (mcool V)) b1 b2 b3 :
  xs <> [] -> (1 <= n)%nat -> Forall (ValidIn n) xs -> Forall (ValidIn n) ys ->
  0 <= b1 -> 0 <= b2 -> 0 <= b3 ->
  exists m, merged_px agg xs b1 = Ok m /\
    merged_px agg (mk_cool n m :: ys) b2 = merged_px agg (xs ++ ys) b3.
Proof.
  intros Hne Hn HX HY H1 H2 H3. exists (groupby_agg agg (allpx xs)).
  split; [now apply (merger_groupby agg n)|].
  rewrite !(merger_groupby agg n); auto.
  - f_equal. change (mk_cool n (groupby_agg agg (allpx xs)) :: ys) with ([mk_cool n (groupby_agg agg (allpx xs))] ++ ys).
    rewrite !allpx_app. unfold allpx at 1. cbn [map concat mc_px mk_cool]. rewrite app_nil_r. apply groupby_app_agg.
  - destruct xs; [contradiction|discriminate].
  - apply Forall_app. split; assumption.
  - discriminate.
  - constructor; [now apply valid_merged|exact HY].
Qed.
End Compose.

(* ---- instances for max and min on integer values *)
Corollary merge_assoc_max n (xs ys : list (mcool Z)) b1 b2 b3 :
  xs <> [] -> (1 <= n)%nat -> Forall (ValidIn n) xs -> Forall (ValidIn n) ys -> 0 <= b1 -> 0 <= b2 -> 0 <= b3 ->
  exists m, merged_px lmax xs b1 = Ok m /\ merged_px lmax (mk_cool n m :: ys) b2 = merged_px lmax (xs ++ ys) b3.
Proof. apply (merge_assoc_gen lmax max_compose max_single). Qed.
Corollary merge_assoc_min n (xs ys : list (mcool Z)) b1 b2 b3 :
  xs <> [] -> (1 <= n)%nat -> Forall (ValidIn n) xs -> Forall (ValidIn n) ys -> 0 <= b1 -> 0 <= b2 -> 0 <= b3 ->
  exists m, merged_px lmin xs b1 = Ok m /\ merged_px lmin (mk_cool n m :: ys) b2 = merged_px lmin (xs ++ ys) b3.
Proof. apply (merge_assoc_gen lmin min_compose min_single). Qed.

(* ================================================================== N. column-wise reading of multi-column merges; the recorded total *)

Definition colproj (j : nat) (l : list (key * list Z)) : list pixel := map (fun p => (fst p, nth j (snd p) 0)) l.

Section ValueMap.
Context {A B : Type}.
Variable f : A -> B.
Definition vmap (l : list (key * A)) : list (key * B) := map (fun p => (fst p, f (snd p))) l.
Definition gmap (g : list (key * list A)) : list (key * list B) := map (fun e => (fst e, map f (snd e))) g.

Lemma gins_map k v g : gins k (f v) (gmap g) = gmap (gins k v g).
Proof.
  induction g as [|[k0 vs] t IH]; [reflexivity|]. cbn [gmap map gins fst snd].
  destruct (kcmp k k0); cbn [map fst snd]; [now rewrite map_app| reflexivity|]. fold (gmap t). now rewrite IH.
Qed.
Lemma group_map l : group (vmap l) = gmap (group l).
Proof.
  unfold group. change (@nil (key * list B)) with (gmap []). generalize (@nil (key * list A)).
  induction l as [|p t IH]; intros acc; [reflexivity|]. cbn [vmap map fold_left fst snd]. rewrite gins_map. apply IH.
Qed.
(** a value map that commutes with the aggregations commutes with the group-by *)
Lemma groupby_agg_map (agg : list A -> A) (agg' : list B -> B) l :
  (forall vs, agg' (map f vs) = f (agg vs)) -> groupby_agg agg' (vmap l) = vmap (groupby_agg agg l).
Proof.
  intro H. unfold groupby_agg. rewrite group_map. unfold gmap, vmap. rewrite !map_map. apply map_ext.
  intros [k vs]. cbn [fst snd]. now rewrite H.
Qed.
End ValueMap.

Lemma group_entry {V} (l : list (key * V)) k vs : In (k, vs) (group l) -> vs = vals l k /\ In k (map fst l).
Proof.
  intro Hin. destruct (group_canon l) as (S1 & K1 & L1). split.
  - rewrite <- L1. clear L1 K1. revert S1 Hin. generalize (group l). induction l0 as [|[k0 vs0] t IH]; intros S1 Hin; [contradiction|].
    pose proof (gsorted_head_notin _ _ _ S1) as N. cbn [glook]. destruct Hin as [E0|Hin].
    + inversion E0; subst. rewrite keqb_refl, (glook_notin t k N), app_nil_r. reflexivity.
    + assert (keqb k0 k = false) as Ek.
      { apply keqb_neq. intros ->. apply N. apply in_map_iff. exists (k, vs). auto. }
      rewrite Ek. cbn [app]. apply IH; [|exact Hin]. inversion S1; assumption.
  - apply K1. apply in_map_iff. exists (k, vs). auto.
Qed.
(** two aggregation functions that agree on every pixel's values give the same table *)
Lemma groupby_agg_ext {V} (agg agg' : list V -> V) (l : list (key * V)) :
  (forall k, In k (map fst l) -> agg (vals l k) = agg' (vals l k)) -> groupby_agg agg l = groupby_agg agg' l.
Proof.
  intro H. unfold groupby_agg. apply map_ext_in. intros [k vs] Hin. cbn [fst snd].
  destruct (group_entry l k vs Hin) as (-> & Hk). f_equal. now apply H.
Qed.

(** C07, multi-column merges: column j of the merged table, when it is summed and no per-pixel sum leaves
    int64, is the canonical aggregate (Model/Pixels.v) of column j of all input records *)
Theorem column_canon ops (l : list (key * list Z)) j :
  nth_error ops j = Some ASum ->
  (forall k, In k (map fst l) -> - 2 ^ 63 <= sumZ (vals (colproj j l) k) < 2 ^ 63) ->
  colproj j (groupby_agg (agg_row ops) l) = aggregate (colproj j l) /\
  Canon (colproj j l) (colproj j (groupby_agg (agg_row ops) l)) /\
  total (colproj j (groupby_agg (agg_row ops) l)) = total (colproj j l).
Proof.
  intros Hop Hfit.
  assert (E : colproj j (groupby_agg (agg_row ops) l) = aggregate (colproj j l)).
  { unfold colproj. change (map (fun p : key * list Z => (fst p, nth j (snd p) 0)) ?x) with (vmap (fun r : list Z => nth j r 0) x).
    rewrite <- (groupby_agg_map (fun r : list Z => nth j r 0) (agg_row ops) (agg_col ASum)).
    - rewrite <- groupby_sum_aggregate. apply groupby_agg_ext. intros k Hk. apply agg_col_sum_exact. apply Hfit.
      unfold vmap in Hk. rewrite map_map in Hk. cbn [fst] in Hk. exact Hk.
    - intros vs. symmetry. now apply agg_row_nth. }
  rewrite E. split; [reflexivity|]. split; [apply aggregate_canon|apply total_aggregate].
Qed.

Lemma sum_count_spec columns px i : col_pos (map (fun c => (c, 0)) columns) 0 = Some i ->
  sum_count columns px = wrap64 (total (colproj i px)).
Proof. intro H. unfold sum_count, total, colproj. rewrite H, map_map. reflexivity. Qed.

(** the column-projected inputs merge_coolers hands to the merger *)
Definition proj_inputs (inputs : list cooler) (columns : option (list Z)) : list (mcool (list Z)) :=
  match all_some (map (fun ci => all_some (map (col_pos (c_cols ci)) (mc_columns columns))) inputs) with
  | Some poss => map (fun cp => project (fst cp) (snd cp)) (combine inputs poss)
  | None => []
  end.

Lemma merge_coolers_px inputs buf columns dtypes aggs c :
  0 <= buf -> (1 <= c_nbins (hd c inputs))%nat ->
  Forall (fun ci => ValidIn (c_nbins (hd ci inputs)) (as_mcool ci)) inputs ->
  merge_coolers inputs buf columns dtypes aggs = Ok c ->
  c_px c = groupby_agg (agg_row (mc_ops columns aggs)) (allpx (proj_inputs inputs columns)) /\
  c_sum c = sum_count (mc_columns columns) (c_px c).
Proof.
  intros Hb Hn HV E.
  apply merge_coolers_unfold in E. destruct E as (c0 & rest & poss & ob & m & -> & Ep & Hl & Em & E1 & E2 & E3 & E4).
  cbn [hd] in *. unfold proj_inputs. rewrite Ep. set (inputs := c0 :: rest) in *.
  set (projected := map (fun cp => project (fst cp) (snd cp)) (combine inputs poss)) in *.
  assert (PV : Forall (ValidIn (c_nbins c0)) projected).
  { subst projected. rewrite Forall_map. apply Forall_forall. intros [ci ps] Hin. cbn [fst snd].
    apply project_valid. apply in_combine_l in Hin. rewrite Forall_forall in HV. apply (HV ci Hin). }
  apply merge_g_exact in Em; auto. destruct Em as (_ & ->). cbn [mc_px mk_cool] in *. rewrite E4, E1. split; reflexivity.
Qed.

(** C07: "the recorded total is the sum of the input totals" -- guarded form.  With count among the merged
    columns (position i), summed, no per-pixel sum leaving int64: the recorded total is the int64 wrap of the
    exact sum of all input counts, hence EQUAL to it whenever that exact total fits int64 *)
Theorem total_exact_within_int64 inputs buf columns dtypes aggs c i :
  0 <= buf -> (1 <= c_nbins (hd c inputs))%nat ->
  Forall (fun ci => ValidIn (c_nbins (hd ci inputs)) (as_mcool ci)) inputs ->
  merge_coolers inputs buf columns dtypes aggs = Ok c ->
  col_pos (map (fun c => (c, 0)) (mc_columns columns)) 0 = Some i ->
  nth_error (mc_ops columns aggs) i = Some ASum ->
  let all_counts := colproj i (allpx (proj_inputs inputs columns)) in
  (forall k, In k (map fst all_counts) -> - 2 ^ 63 <= sumZ (vals all_counts k) < 2 ^ 63) ->
  c_sum c = wrap64 (total all_counts) /\
  (- 2 ^ 63 <= total all_counts < 2 ^ 63 -> c_sum c = total all_counts).
Proof.
  intros Hb Hn HV E Hi Hop ac Hfit. destruct (merge_coolers_px _ _ _ _ _ _ Hb Hn HV E) as (Epx & Esum).
  rewrite Esum, (sum_count_spec _ _ i Hi), Epx.
  destruct (column_canon (mc_ops columns aggs) (allpx (proj_inputs inputs columns)) i Hop) as (_ & _ & T).
  { intros k Hk. apply Hfit. subst ac. unfold colproj. rewrite map_map. cbn [fst]. exact Hk. }
  rewrite T. fold ac. split; [reflexivity|apply wrap64_id].
Qed.

Corollary unordered_independent_max n o o' vc vc' (chunks chunks' : list (list pixel)) buf buf' edges edges' m m' :
  (1 <= n)%nat -> 0 <= buf -> 0 <= buf' -> Permutation (concat chunks) (concat chunks') ->
  Forall (fun ch => (o_sort o = true \/ RowSorted ch) /\ Forall (fun p => 0 <= rowof p < Z.of_nat n) ch) chunks ->
  Forall (fun ch => (o_sort o' = true \/ RowSorted ch) /\ Forall (fun p => 0 <= rowof p < Z.of_nat n) ch) chunks' ->
  match edges with Some e => Admissible (length chunks) e | None => True end ->
  match edges' with Some e => Admissible (length chunks') e | None => True end ->
  unordered_g n o vc lmax chunks buf edges = Ok m -> unordered_g n o' vc' lmax chunks' buf' edges' = Ok m' -> m = m'.
Proof. apply (unordered_independent_gen lmax max_perm max_compose). Qed.
Corollary unordered_independent_min n o o' vc vc' (chunks chunks' : list (list pixel)) buf buf' edges edges' m m' :
  (1 <= n)%nat -> 0 <= buf -> 0 <= buf' -> Permutation (concat chunks) (concat chunks') ->
  Forall (fun ch => (o_sort o = true \/ RowSorted ch) /\ Forall (fun p => 0 <= rowof p < Z.of_nat n) ch) chunks ->
  Forall (fun ch => (o_sort o' = true \/ RowSorted ch) /\ Forall (fun p => 0 <= rowof p < Z.of_nat n) ch) chunks' ->
  match edges with Some e => Admissible (length chunks) e | None => True end ->
  match edges' with Some e => Admissible (length chunks') e | None => True end ->
  unordered_g n o vc lmin chunks buf edges = Ok m -> unordered_g n o' vc' lmin chunks' buf' edges' = Ok m' -> m = m'.
Proof. apply (unordered_independent_gen lmin min_perm min_compose). Qed.
