import warnings; warnings.filterwarnings("ignore")
import numpy as np, pandas as pd, cooler
rng=np.random.default_rng(31)
print(cooler.__file__)
bad=0;tot=0
for t in range(300):
    nchr=int(rng.integers(1,4)); per=rng.integers(1,5,nchr); cs=pd.Series({f"c{k}":int(p)*10 for k,p in enumerate(per)})
    bins=cooler.binnify(cs,10); n=len(bins)
    M=np.triu((rng.random((n,n))<rng.choice([0.3,0.7,1.0]))*rng.integers(1,20,(n,n)))
    i,j=np.nonzero(M); cooler.create_cooler("m.cool",bins,pd.DataFrame({"bin1_id":i,"bin2_id":j,"count":M[i,j]})); c=cooler.Cooler("m.cool")
    d=int(rng.integers(0,3)); mn=int(rng.integers(0,4)); mc=int(rng.integers(0,15)); mm=int(rng.integers(0,3)); cis=bool(rng.integers(0,2)) and nchr>1
    bl=sorted(set(rng.integers(0,n,rng.integers(0,2)).tolist())) or None
    x0=None
    if rng.random()<0.3:
        x0=rng.random(n)+0.5; x0[rng.integers(0,n)]=np.nan
        if rng.random()<0.5: x0[rng.integers(0,n)]=0
    kw=dict(ignore_diags=d,min_nnz=mn,min_count=mc,mad_max=mm,cis_only=cis,blacklist=bl,x0=None if x0 is None else x0.copy(),tol=1e-6,max_iters=300)
    w,st=cooler.balance_cooler(c,**kw); tot+=1
    # reference
    F=(M+np.triu(M,1).T).astype(float); chrom=np.repeat(np.arange(nchr),per)
    def filt(A):
        A=A.copy()
        if cis: A[chrom[:,None]!=chrom[None,:]]=0
        if d: 
            ii,jj=np.indices((n,n)); A[np.abs(ii-jj)<d]=0
        return A
    bias=np.ones(n) if x0 is None else np.where(np.isnan(x0),0,x0)
    if mn>0: bias[filt((F!=0).astype(float)).sum(1)<mn]=0
    marg=filt(F).sum(1)
    if mc: bias[marg<mc]=0
    if mm>0:
        mg=marg.copy(); off=np.r_[0,np.cumsum(per)]
        for lo,hi in zip(off[:-1],off[1:]):
            cm=mg[lo:hi]; mg[lo:hi]=cm/np.median(cm[cm>0]) if (cm>0).any() else cm/np.nan
        with np.errstate(all="ignore"):
            L=np.log(mg[mg>0]); 
            if len(L): 
                cutoff=np.exp(np.median(L)-mm*np.median(np.abs(L-np.median(L)))); bias[mg<cutoff]=0
    if bl: bias[bl]=0
    Ff=filt(F)
    expnan=(bias==0)
    groups=[np.arange(n)] if not cis else [np.where(chrom==k)[0] for k in range(nchr)]
    for g in groups:
        sub=Ff[np.ix_(g,g)]*np.outer(bias[g],bias[g])
        if not (sub.sum(1)!=0).any(): expnan[g]=True
    if not np.array_equal(np.isnan(w),expnan): 
        bad+=1
        if bad<6: print("MASK MISMATCH",kw,"got",np.isnan(w).astype(int),"exp",expnan.astype(int),"marg",marg)
print("mask tot",tot,"bad",bad)
