From Coq Require Import ZArith List Bool Lia.
Import ListNotations.
Open Scope Z_scope.

Definition pixel := (Z * Z * Z)%type.
Definition row (p:pixel) := fst (fst p).
Definition col (p:pixel) := snd (fst p).
Definition val (p:pixel) := snd p.

(* reader: rows in [s0,s1), cols in [j0,j1); reflect: append mirrored entries with col < i1 and off-diagonal *)
Definition inb (lo hi x:Z) := (lo <=? x) && (x <? hi).
Definition reader (px:list pixel) (i1 j0 j1 s0 s1:Z) (reflect:bool) : list pixel :=
  let base := filter (fun p => inb s0 s1 (row p) && inb j0 j1 (col p)) px in
  if reflect then base ++ map (fun p => (col p, row p, val p)) (filter (fun p => negb (row p =? col p) && (col p <? i1)) base)
  else base.
Definition transpose (l:list pixel) := map (fun p => (col p, row p, val p)) l.

Definition comes_before (a0 a1 b0 b1:Z) (strict:bool) :=
  if a0 <? b0 then (if strict then a1 <=? b0 else a1 <=? b1) else false.
Definition contains (a0 a1 b0 b1:Z) := (a0 <=? b0) && (b1 <=? a1).

Definition fill_lower (px:list pixel) (i0 i1 j0 j1:Z) : list pixel :=
  let ut := j1 <? i1 in
  let '(a0,a1,b0,b1) := if ut then (j0,j1,i0,i1) else (i0,i1,j0,j1) in
  let f (tr:bool) bb := let '(x0,x1,y0,y1) := bb in
      let r := reader px x1 y0 y1 x0 x1 true in if tr then transpose r else r in
  if (a0 =? b0) || comes_before a0 a1 b0 b1 true then f ut (a0,a1,b0,b1)
  else if comes_before a0 a1 b0 b1 false then f ut (a0,b0,b0,b1) ++ f ut (b0,a1,b0,b1)
  else f (negb ut) (b0,a0,a0,a1) ++ f ut (a0,a1,a0,b1).

Definition look (px:list pixel) (i j:Z) : Z :=
  fold_right (fun p acc => if (row p =? i) && (col p =? j) then val p + acc else acc) 0 px.
Definition symm px i j := if i <=? j then look px i j else look px j i.

Fixpoint zrange (lo:Z) (n:nat) : list Z := match n with O => [] | S k => lo :: zrange (lo+1) k end.
Definition check_window px i0 i1 j0 j1 : bool :=
  let out := fill_lower px i0 i1 j0 j1 in
  forallb (fun i => forallb (fun j => look out i j =? (if inb i0 i1 i && inb j0 j1 j then symm px i j else 0)) (zrange 0 7)) (zrange 0 7).
Definition all_windows (n:Z) px : bool :=
  forallb (fun i0 => forallb (fun i1 => forallb (fun j0 => forallb (fun j1 =>
     if (i0 <=? i1) && (j0 <=? j1) then check_window px i0 i1 j0 j1 else true) (zrange 0 (Z.to_nat n+1))) (zrange 0 (Z.to_nat n+1))) (zrange 0 (Z.to_nat n+1))) (zrange 0 (Z.to_nat n+1)).
Definition px1 : list pixel := [(0,0,3);(0,2,1);(0,5,2);(1,1,4);(1,2,7);(2,4,1);(3,3,9);(3,5,2);(5,5,1)].
Time Eval vm_compute in all_windows 6 px1.
