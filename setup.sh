#!/bin/bash
# Offline build of the Coq development (full .vo build through coq_makefile).
set -e
cd "$(dirname "$0")"
export PYTHONPATH="/repo/src:$PWD/harness" PYTHONHASHSEED=0
if [ -f tools/py2v.py ]; then /venv/bin/python tools/py2v.py --repo "${VERIF_REPO:-/repo}" --out coq/Gen || echo "translator reported failures (checks will report them)"; fi
/venv/bin/python -c "import sys; sys.path.insert(0,'harness'); import common; common.write_coqproject()"
cd coq && timeout 3400 make -j16 > /dev/null 2>build.log || { tail -30 build.log; echo "coq build failed (checks will report the broken obligations)"; }
exit 0
