(** Model of cooler._balance (iterative correction) and of the split / prepare / pipe / reduce
    pipeline of cooler.parallel, over exact rationals [Q].  Used by C10 and C11.
    No proofs here.  Floating point is NOT modelled: every float of the Python code is a [Q],
    NaN is [None] where it can occur (returned weights, scale, normalised marginals of the MAD filter).

    Anchors: _balance.py:25-71 (filters, _marginalize), 74-262 (three loops), 352-456 (spans, masks, dispatch);
             parallel.py:53-68 (apply_pipeline), 253-273 (reduce), 276-304 (chunkgetter), 307-320 (split);
             util.py:19-34 (partition). *)
From Cooler Require Export Model.Base Model.Pixels.
From Coq Require Export QArith.
Open Scope Z_scope.

(** ---------- small Q helpers *)
Definition qz (x : Q) : bool := Qeq_bool x 0.                    (* x == 0 *)
Definition Qltb (x y : Q) : bool := negb (Qle_bool y x).           (* x < y  *)
Definition sumQ (l : list Q) : Q := fold_right Qplus 0%Q l.
Definition qnth (l : list Q) (i : Z) : Q := nth (Z.to_nat i) l 0%Q.
Definition qlen {A} (l : list A) : Q := inject_Z (zlen l).

(** ---------- the per-chunk pipeline (parallel.apply_pipeline with a prepare step) *)
(** a chunk after [_init]: the pixel's bin ids together with its (copied) count as a float *)
Definition wpx := (key * Q)%type.
Definition b1 (w : wpx) : Z := fst (fst w).
Definition b2 (w : wpx) : Z := snd (fst w).
Definition dat (w : wpx) : Q := snd w.

Definition init (chunk : list pixel) : list wpx := map (fun p => (fst p, inject_Z (snd p))) chunk.

(** filters, one pixel at a time (each numpy filter is an element-wise masked assignment) *)
Definition f_binarize (w : wpx) : wpx := (fst w, if qz (dat w) then 0%Q else 1%Q).
Definition f_zero_diags (d : Z) (w : wpx) : wpx :=
  if Z.abs (b1 w - b2 w) <? d then (fst w, 0%Q) else w.
Definition chrom_of (chroms : list Z) (i : Z) : Z := znth chroms i (-1).
Definition f_zero_trans (chroms : list Z) (w : wpx) : wpx :=
  if chrom_of chroms (b1 w) =? chrom_of chroms (b2 w) then w else (fst w, 0%Q).
Definition f_zero_cis (chroms : list Z) (w : wpx) : wpx :=
  if chrom_of chroms (b1 w) =? chrom_of chroms (b2 w) then (fst w, 0%Q) else w.
Definition f_times (vec : list Q) (w : wpx) : wpx :=
  (fst w, (qnth vec (b1 w) * qnth vec (b2 w) * dat w)%Q).

(** for func in funcs: data = func(chunk, data) *)
Definition pipe (fs : list (wpx -> wpx)) (chunk : list wpx) : list wpx :=
  fold_left (fun d f => map f d) fs chunk.

(** _marginalize: bincount over bin1 with all data + bincount over bin2 with the off-diagonal data
    (the D11 repair: a diagonal pixel is counted once) *)
Definition contrib (i : Z) (w : wpx) : Q :=
  ((if b1 w =? i then dat w else 0) + (if (b2 w =? i) && negb (b1 w =? b2 w) then dat w else 0))%Q.
(** [Qred] (value-preserving normalisation of the fraction) only keeps exact evaluation feasible *)
Definition marg_at (i : Z) (l : list wpx) : Q := Qred (sumQ (map (contrib i) l)).
Definition marginalize (n : nat) (l : list wpx) : list Q := map (fun i => marg_at i l) (zrange 0 n).

(** ---------- spans, chunk getter, reduce *)
(** numpy.arange(lo, hi, step) / range(lo, hi, step) for step >= 1 *)
Definition arange (lo hi step : Z) : list Z :=
  map (fun k => lo + Z.of_nat k * step) (seq 0 (Z.to_nat (cdiv (hi - lo) step))).

(** balance_cooler: edges = arange(0, nnz + chunksize, chunksize); spans = zip(edges[:-1], edges[1:]);
    chunksize=None -> [(0, nnz)] *)
Definition balance_spans (nnz : Z) (chunksize : option Z) : list (Z * Z) :=
  match chunksize with
  | None => [(0, nnz)]
  | Some c => let e := arange 0 (nnz + c) c in combine (removelast e) (tl e)
  end.

(** util.partition(start, stop, step) *)
Definition partition (start stop step : Z) : list (Z * Z) :=
  map (fun i => (i, Z.min (i + step) stop)) (arange start stop step).

(** chunkgetter: pixels[lo:hi] (h5py clamps the slice to the dataset) *)
Definition get_chunk (px : list pixel) (s : Z * Z) : list pixel := slice px (fst s) (snd s).

Definition vadd (a b : list Q) : list Q := map (fun p => Qred (fst p + snd p)) (combine a b).
Definition zeros (n : nat) : list Q := repeat 0%Q n.

(** the list of per-chunk results as the map functor receives the keys (in span order) *)
Definition marg_chunks (n : nat) (spans : list (Z * Z)) (fs : list (wpx -> wpx)) (px : list pixel)
  : list (list Q) :=
  map (fun s => marginalize n (pipe fs (init (get_chunk px s)))) spans.

(** reduce(add, results, zeros(n)) *)
Definition reduce_add (n : nat) (results : list (list Q)) : list Q := fold_left vadd results (zeros n).

Definition marg_of (n : nat) (spans : list (Z * Z)) (fs : list (wpx -> wpx)) (px : list pixel) : list Q :=
  reduce_add n (marg_chunks n spans fs px).

(** ---------- one IC sweep *)
Definition nzs (m : list Q) : list Q := filter (fun x => negb (qz x)) m.
Definition mean (l : list Q) : Q := Qred (sumQ l / qlen l).
Definition variance (l : list Q) : Q :=                       (* numpy var, ddof = 0 *)
  let mu := mean l in mean (map (fun x => ((x - mu) * (x - mu))%Q) l).

(** marg -> (bias', var, mean);  None when no marginal is non-zero.
    marg = marg / nzmarg.mean(); marg[marg == 0] = 1; bias /= marg; var = nzmarg.var() *)
Definition upd (mu : Q) (p : Q * Q) : Q :=
  let '(mi, bi) := p in if qz mi then bi else Qred (bi / (mi / mu)).
Definition ic_update (m b : list Q) : option (list Q * Q * Q) :=
  match nzs m with
  | [] => None
  | nz => let mu := mean nz in Some (map (upd mu) (combine m b), variance nz, mu)
  end.

(** the loop body iterated: Some (bias, scale, var, iterations); scale = None is the
    "no non-zero marginal" exit (all weights NaN, var = 0); outer None = max_iters = 0
    (the Python code then fails with an unbound local). *)
Fixpoint ic_loop (margf : list Q -> list Q) (tol : Q) (fuel : nat) (b : list Q)
  : option (list Q * option Q * Q * nat) :=
  match fuel with
  | O => None
  | S f =>
      match ic_update (margf b) b with
      | None => Some (b, None, 0%Q, 1%nat)
      | Some (b', var, mu) =>
          if Qltb var tol then Some (b', Some mu, var, 1%nat)
          else match ic_loop margf tol f b' with
               | None => Some (b', Some mu, var, 1%nat)            (* iteration limit reached *)
               | Some (bb, s, v, k) => Some (bb, s, v, S k)
               end
      end
  end.

(** bias[bias == 0] = nan, or everything NaN on the no-data exit *)
Definition mark_nan (scale : option Q) (b : list Q) : list (option Q) :=
  match scale with
  | None => map (fun _ => None) b
  | Some _ => map (fun x => if qz x then None else Some x) b
  end.

(** ---------- options, filters, masks *)
Record opts := {
  o_cis : bool; o_trans : bool; o_diags : Z; o_mad : Z; o_nnz : Z; o_count : Z;
  o_black : list Z; o_tol : Q; o_iters : nat; o_chunk : option Z; o_x0 : option (list (option Q)) }.

Definition base_filters (o : opts) (chroms : list Z) : list (wpx -> wpx) :=
  (if o_cis o then [f_zero_trans chroms] else []) ++
  (if o_diags o =? 0 then [] else [f_zero_diags (o_diags o)]).

Definition mask_lt (m : list Q) (thr : Q) (b : list Q) : list Q :=
  map (fun p => if Qltb (fst p) thr then 0%Q else snd p) (combine m b).

(** insertion sort and median (numpy.median: mean of the two middle values for even length) *)
Fixpoint qins (x : Q) (l : list Q) : list Q :=
  match l with [] => [x] | y :: r => if Qle_bool x y then x :: l else y :: qins x r end.
Definition qsort (l : list Q) : list Q := fold_right qins [] l.
Definition mid2 (l : list Q) : option (Q * Q) :=          (* the two middle order statistics (equal when odd) *)
  let s := qsort l in
  let n := length s in
  match n with O => None | _ =>
    Some (nth (Nat.div (Nat.sub n 1) 2) s 0%Q, nth (Nat.div n 2) s 0%Q) end.
Definition median (l : list Q) : option Q :=
  match mid2 l with None => None | Some (a, b) => Some ((a + b) / 2)%Q end.

Definition qpos (x : Q) : bool := Qltb 0 x.

(** per-chromosome normalisation: marg[lo:hi] /= median(c_marg[c_marg > 0]); NaN when there is none *)
Definition norm_chrom (marg : list Q) (lohi : Z * Z) : list (option Q) :=
  let c := slice marg (fst lohi) (snd lohi) in
  match median (filter qpos c) with
  | None => map (fun _ => None) c
  | Some md => map (fun x => Some (x / md)%Q) c
  end.
Definition norm_marg (marg : list Q) (offsets : list Z) : list (option Q) :=
  concat (map (norm_chrom marg) (combine (removelast offsets) (tl offsets))).

(** MAD-max cutoff in multiplicative form, 4th powers so that even counts stay rational:
    x_med = exp(median(log x)), r_i = exp|log x_i - log x_med| = max(x_i/x_med, x_med/x_i),
    r_med = exp(median(log r)), cutoff = exp(median(log x) - k * MAD(log x)) = x_med / r_med^k.
    med2 = x_med^2, R_i = r_i^2, rm4 = r_med^4, result = cutoff^4.  None when no positive value. *)
Definition qmax (a b : Q) : Q := if Qle_bool a b then b else a.
Definition mad_cutoff4 (pos : list Q) (k : Z) : option Q :=
  match mid2 pos with
  | None => None
  | Some (a, b) =>
      let med2 := (a * b)%Q in
      let R := map (fun x => qmax (x * x / med2) (med2 / (x * x)))%Q pos in
      match mid2 R with
      | None => None
      | Some (ra, rb) => Some (med2 * med2 / Qpower (ra * rb) k)%Q
      end
  end.
Definition optpos (l : list (option Q)) : list Q :=
  flat_map (fun v => match v with Some x => if qpos x then [x] else [] | None => [] end) l.
(** bias[marg < cutoff] = 0 on the normalised marginals (NaN compares false) *)
Definition mad_masked (c4 : option Q) (v : option Q) : bool :=
  match c4, v with
  | Some c, Some x => if qpos x then Qltb (x * x * x * x) c else true
  | _, _ => false
  end.
Definition mask_mad (nm : list (option Q)) (k : Z) (b : list Q) : list Q :=
  let c4 := mad_cutoff4 (optpos nm) k in
  map (fun p => if mad_masked c4 (fst p) then 0%Q else snd p) (combine nm b).

Definition mask_black (black : list Z) (b : list Q) : list Q :=
  map (fun p => if existsb (Z.eqb (fst p)) black then 0%Q else snd p) (enumerate b).

Definition x0_bias (n : nat) (x0 : option (list (option Q))) : list Q :=
  match x0 with
  | None => repeat 1%Q n
  | Some x => map (fun v => match v with None => 0%Q | Some q => q end) x
  end.

(** the weights handed to the loop: x0 / ones, then min_nnz, min_count, MAD-max, blacklist *)
Definition initial_bias (o : opts) (n : nat) (chroms offsets : list Z) (px : list pixel) : list Q :=
  let spans := balance_spans (zlen px) (o_chunk o) in
  let bf := base_filters o chroms in
  let w0 := x0_bias n (o_x0 o) in
  let w1 := if 0 <? o_nnz o
            then mask_lt (marg_of n spans (f_binarize :: bf) px) (inject_Z (o_nnz o)) w0 else w0 in
  let marg := marg_of n spans bf px in
  let w2 := if o_count o =? 0 then w1 else mask_lt marg (inject_Z (o_count o)) w1 in
  let w3 := if 0 <? o_mad o then mask_mad (norm_marg marg offsets) (o_mad o) w2 else w2 in
  mask_black (o_black o) w3.

(** ---------- the three modes *)
(** genome-wide *)
Definition margf_gw (n : nat) (spans : list (Z * Z)) (bf : list (wpx -> wpx)) (px : list pixel) (b : list Q) : list Q :=
  marg_of n spans (bf ++ [f_times b]) px.

(** trans-only: cweights = 1 / (1 - (hi - lo) / n_bins), sweep on bias * cweights over the cis-zeroed data *)
Definition cweights (n : nat) (offsets : list Z) : list Q :=
  flat_map (fun lohi => let s := snd lohi - fst lohi in
                        repeat (1 / (1 - inject_Z s / inject_Z (Z.of_nat n)))%Q (Z.to_nat s))
           (combine (removelast offsets) (tl offsets)).
Definition vmul (a b : list Q) : list Q := map (fun p => (fst p * snd p)%Q) (combine a b).
Definition margf_trans (n : nat) (spans : list (Z * Z)) (bf : list (wpx -> wpx)) (chroms offsets : list Z)
           (px : list pixel) (b : list Q) : list Q :=
  marg_of n spans (bf ++ [f_zero_cis chroms; f_times (vmul b (cweights n offsets))]) px.

(** cis-only: one loop per chromosome on bias[lo:hi], spans = partition(bin1_offset[lo], bin1_offset[hi], chunksize),
    marginals restricted to [lo,hi) *)
Definition bin1_offset (px : list pixel) (i : Z) : Z := zlen (filter (fun p => row p <? i) px).
Definition splice (b : list Q) (lo hi : Z) (seg : list Q) : list Q :=
  firstn (Z.to_nat lo) b ++ seg ++ skipn (Z.to_nat hi) b.
Definition margf_cis (n : nat) (c : Z) (bf : list (wpx -> wpx)) (px : list pixel) (full : list Q) (lo hi : Z)
           (seg : list Q) : list Q :=
  let spans := partition (bin1_offset px lo) (bin1_offset px hi) c in
  slice (marg_of n spans (bf ++ [f_times (splice full lo hi seg)]) px) lo hi.

Record chrom_res := { c_bias : list (option Q); c_scale : option Q; c_var : Q; c_iters : nat }.

(** chunksize=None -> max(nnz, 1)  (repair D30: never a zero step for the cis-only partition of an empty cooler) *)
Definition eff_chunk (o : opts) (nnz : Z) : Z := match o_chunk o with None => Z.max nnz 1 | Some c => c end.

(** result: None = error (max_iters = 0); otherwise the unrescaled weights with NaN marks, and per
    (sub)problem (scale, var, iterations).  The returned Python weights are these divided by sqrt(scale)
    of their (sub)problem when rescale_marginals is on. *)
Fixpoint cis_loop (o : opts) (n : nat) (c : Z) (bf : list (wpx -> wpx)) (px : list pixel)
         (full : list Q) (ranges : list (Z * Z)) : option (list chrom_res) :=
  match ranges with
  | [] => Some []
  | (lo, hi) :: rest =>
      match ic_loop (margf_cis n c bf px full lo hi) (o_tol o) (o_iters o) (slice full lo hi) with
      | None => None
      | Some (seg, s, v, k) =>
          match cis_loop o n c bf px (splice full lo hi seg) rest with
          | None => None
          | Some rs => Some ({| c_bias := mark_nan s seg; c_scale := s; c_var := v; c_iters := k |} :: rs)
          end
      end
  end.

Definition balance (o : opts) (n : nat) (chroms offsets : list Z) (px : list pixel) : option (list chrom_res) :=
  let spans := balance_spans (zlen px) (o_chunk o) in
  let bf := base_filters o chroms in
  let b := initial_bias o n chroms offsets px in
  if o_cis o then
    cis_loop o n (eff_chunk o (zlen px)) bf px b (combine (removelast offsets) (tl offsets))
  else
    let margf := if o_trans o then margf_trans n spans bf chroms offsets px else margf_gw n spans bf px in
    match ic_loop margf (o_tol o) (o_iters o) b with
    | None => None
    | Some (bb, s, v, k) => Some [{| c_bias := mark_nan s bb; c_scale := s; c_var := v; c_iters := k |}]
    end.

(** ---------- dense reference objects used by the theorems *)
(** dense symmetric matrix entry of a weighted upper-triangular pixel list (duplicates add) *)
Definition dense (l : list wpx) (i j : Z) : Q :=
  sumQ (map (fun w => if (b1 w =? Z.min i j) && (b2 w =? Z.max i j) then dat w else 0%Q) l).
(** i-th row sum of diag(b) F diag(b) for an abstract dense matrix F on bins 0..n-1 *)
Definition rowsum (F : Z -> Z -> Q) (n : nat) (b : list Q) (i : Z) : Q :=
  (qnth b i * sumQ (map (fun j => F i j * qnth b j) (zrange 0 n)))%Q.

(** evaluation helpers: a rational is printed as the two-element list [numerator; denominator] of its
    reduced fraction (Coq would print some Q literals in decimal notation) *)
Definition qout (x : Q) : list Z := let r := Qred x in [Qnum r; Zpos (Qden r)].
Definition qoutl (l : list Q) : list (list Z) := map qout l.
Definition qouto (l : list (option Q)) : list (option (list Z)) := map (option_map qout) l.
Definition out_step (r : option (list Q * Q * Q)) : option (list (list Z) * list Z * list Z) :=
  match r with None => None | Some (b, v, m) => Some (qoutl b, qout v, qout m) end.
Definition out_res (r : option (list chrom_res))
  : option (list (list (option (list Z)) * option (list Z) * list Z * nat)) :=
  option_map (map (fun c => (qouto (c_bias c), option_map qout (c_scale c), qout (c_var c), c_iters c))) r.
