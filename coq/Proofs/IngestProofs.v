(** Proofs for C05: each valid input record is counted once, in the pixel that contains it. *)
From Cooler Require Import Model.Ingest Proofs.BinsProofs Proofs.ExtentProofs Proofs.PixelsProofs.
From Coq Require Import ZifyBool Sorted Permutation.
Ltac Zify.zify_post_hook ::= Z.to_euclidean_division_equations.

(* ------------------------------------------------------------ bin assignment = lower end of the extent *)
Lemma ss_right_shift a l p : searchsorted_right (map (Z.add a) l) (a + p) = searchsorted_right l p.
Proof.
  induction l as [|y l IH]; [reflexivity|]. cbn [map searchsorted_right]. rewrite IH.
  destruct (a + y <=? a + p) eqn:E1, (y <=? p) eqn:E2; lia.
Qed.

Lemma slice_map {A B} (f : A -> B) l lo hi : slice (map f l) lo hi = map f (slice l lo hi).
Proof. unfold slice. now rewrite skipn_map, firstn_map. Qed.

Lemma assign_var_extent blocks i blk p e :
  ValidBlocks blocks -> nth_error blocks i = Some blk ->
  assign_var blocks (Z.of_nat i) p = fst (region_to_extent_var blocks i p e).
Proof.
  intros HV Hi. rewrite (var_unfold blocks i blk Hi). cbn [fst]. unfold assign_var, chrom_binoffset, start_abspos.
  replace (Z.to_nat (Z.of_nat i + 1)) with (S i) by lia. rewrite Nat2Z.id.
  rewrite slice_map, (slice_chrom _ _ _ Hi).
  destruct (HV i blk Hi) as [_ HT].
  rewrite (map_ext_in _ (fun x => chrom_abspos blocks (Z.of_nat i) + bstart x)).
  2:{ intros x Hx. now rewrite (tiled_chrom _ _ _ _ HT Hx). }
  rewrite <- (map_map bstart (Z.add (chrom_abspos blocks (Z.of_nat i)))), ss_right_shift. lia.
Qed.

Lemma assign_extent blocks i blk p e :
  ValidBlocks blocks -> nth_error blocks i = Some blk ->
  assign blocks (Z.of_nat i) p = fst (region_to_extent blocks i p e).
Proof.
  intros HV Hi. unfold assign, assign_bs, gs_binsize, region_to_extent.
  destruct (get_binsize (table blocks)) as [b|].
  - unfold assign_fixed, region_to_extent_fixed, chrom_binoffset. now rewrite Nat2Z.id.
  - now apply assign_var_extent with (blk := blk).
Qed.

(** an in-range anchor is assigned the bin of its own chromosome that contains it *)
Theorem assign_contains blocks i blk p :
  ValidBlocks blocks -> nth_error blocks i = Some blk -> 0 <= p < chrom_len blk ->
  exists x, nth_error (table blocks) (Z.to_nat (assign blocks (Z.of_nat i) p)) = Some x /\
            bchrom x = Z.of_nat i /\ bstart x <= p < bend x /\
            chrom_offset blocks i <= assign blocks (Z.of_nat i) p < chrom_offset blocks (S i).
Proof.
  intros HV Hi Hp. rewrite (assign_extent blocks i blk p (p + 1) HV Hi).
  pose proof (extent_overlap blocks i blk p (p + 1) HV Hi ltac:(lia) ltac:(lia)) as H.
  destruct (region_to_extent blocks i p (p + 1)) as [lo hi]. cbn [fst]. destruct H as (Hiff & Hlo & Hhi).
  pose proof (chrom_offset_nonneg blocks i) as Hoff.
  destruct (proj1 (Hiff (Z.to_nat lo)) ltac:(lia)) as (x & Hx & Hc & H1 & H2).
  exists x. repeat split; auto; lia.
Qed.

Lemma contains_b_spec blocks c p k :
  contains_b blocks c p k = true <->
  0 <= k /\ exists x, nth_error (table blocks) (Z.to_nat k) = Some x /\ bchrom x = c /\ bstart x <= p < bend x.
Proof.
  unfold contains_b. destruct (nth_error (table blocks) (Z.to_nat k)) as [x|].
  - split.
    + intros H. split; [lia|]. exists x. repeat split; lia.
    + intros (Hk & x' & Hx & Hc & Hp). injection Hx as <-. lia.
  - split; [discriminate|]. intros (_ & x & Hx & _). discriminate.
Qed.

(* ------------------------------------------------------------ phases = record by record *)
Definition is_raise (ta : tril_action) : bool := match ta with TrilRaise => true | _ => false end.

Definition tril_phase (ta : tril_action) (rows : list wrow) : list wrow :=
  match ta with
  | TrilReflect => map (fun w => if is_tril w then swap_w w else w) rows
  | TrilDrop => filter (fun w => negb (is_tril w)) rows
  | _ => rows
  end.

Section Fusion.
  Variable blocks : list (list bin).
  Variables (one_based validate : bool) (ta : tril_action).
  Let bs := gs_binsize blocks.
  Let f := sanitize1 blocks one_based validate ta.
  Let rows (chunk : list record) := map (to_wrow one_based) (filter known chunk).

  Lemma err_fusion chunk :
    existsb is_err (map f chunk) =
    (validate && existsb is_neg (rows chunk)) || (validate && existsb (is_excess blocks) (rows chunk))
    || (is_raise ta && existsb is_tril (rows chunk)).
  Proof.
    unfold rows. induction chunk as [|r chunk IH]; [cbn; now rewrite !andb_false_r|].
    cbn [map existsb filter]. rewrite IH. clear IH. unfold f, sanitize1, sanitize1_bs.
    destruct (known r); cbn [negb map existsb].
    - generalize (existsb is_neg (map (to_wrow one_based) (filter known chunk))); intro e1.
      generalize (existsb (is_excess blocks) (map (to_wrow one_based) (filter known chunk))); intro e2.
      generalize (existsb is_tril (map (to_wrow one_based) (filter known chunk))); intro e3.
      generalize (assign_w (gs_binsize blocks) blocks (to_wrow one_based r)); intro o1.
      generalize (assign_w (gs_binsize blocks) blocks (swap_w (to_wrow one_based r))); intro o2.
      destruct (is_neg (to_wrow one_based r)), (is_excess blocks (to_wrow one_based r)),
        (is_tril (to_wrow one_based r)), validate, ta, e1, e2, e3; reflexivity.
    - reflexivity.
  Qed.

  Lemma keep_fusion chunk : existsb is_err (map f chunk) = false ->
    flat_map kept (map f chunk) = map (assign_w bs blocks) (tril_phase ta (rows chunk)).
  Proof.
    unfold rows. induction chunk as [|r chunk IH]; [destruct ta; reflexivity|].
    cbn [map existsb filter flat_map]. intros H. apply orb_false_elim in H as [Hr H]. specialize (IH H).
    rewrite IH. clear IH H.
    assert (Hf : f r = sanitize1_bs bs blocks one_based validate ta r) by reflexivity.
    rewrite Hf in *. clear Hf. unfold sanitize1_bs in *.
    destruct (known r); cbn [negb] in *; [|reflexivity].
    cbn [map].
    destruct (validate && (is_neg (to_wrow one_based r) || is_excess blocks (to_wrow one_based r))); [discriminate|].
    destruct (is_tril (to_wrow one_based r)) eqn:Et; destruct ta;
      cbn [is_err kept app tril_phase map filter] in *; rewrite ?Et; cbn [negb]; try discriminate; reflexivity.
  Qed.

  (** the chunk-level function is a per-record map/filter: every record is judged on its own *)
  Theorem sanitize_is_map_filter chunk :
    sanitize_records blocks one_based validate ta chunk = collect (map f chunk).
  Proof.
    unfold collect. pose proof (err_fusion chunk) as He. pose proof (keep_fusion chunk) as Hk.
    unfold sanitize_records. fold bs. fold (rows chunk).
    destruct (existsb is_err (map f chunk)).
    - destruct (validate && existsb is_neg (rows chunk)); [reflexivity|].
      destruct (validate && existsb (is_excess blocks) (rows chunk)); [reflexivity|].
      cbn [orb] in He. destruct ta; cbn [is_raise andb] in He; try discriminate.
      now rewrite <- He.
    - symmetry in He. apply orb_false_elim in He as [He He3]. apply orb_false_elim in He as [He1 He2].
      rewrite He1, He2, (Hk eq_refl).
      destruct ta; cbn [tril_phase is_raise andb] in *; try reflexivity. now rewrite He3.
  Qed.
End Fusion.

(* ------------------------------------------------------------ consequences of the map/filter form *)
Lemma collect_app l1 l2 :
  collect (l1 ++ l2) =
  match collect l1, collect l2 with
  | Some a, Some b => Some (a ++ b)
  | _, _ => None
  end.
Proof.
  unfold collect. rewrite existsb_app, flat_map_app.
  destruct (existsb is_err l1), (existsb is_err l2); reflexivity.
Qed.

(** re-chunking: processing a chunk in two pieces fails iff a piece fails, and otherwise
    concatenates the outputs *)
Theorem sanitize_app blocks ob val ta c1 c2 :
  sanitize_records blocks ob val ta (c1 ++ c2) =
  match sanitize_records blocks ob val ta c1, sanitize_records blocks ob val ta c2 with
  | Some a, Some b => Some (a ++ b)
  | _, _ => None
  end.
Proof. rewrite !sanitize_is_map_filter, map_app. apply collect_app. Qed.

Lemma existsb_perm {A} (p : A -> bool) l l' : Permutation l l' -> existsb p l = existsb p l'.
Proof.
  induction 1 as [|x l l' _ IH|x y l|l l' l'' _ IH1 _ IH2]; cbn; try congruence.
  destruct (p x), (p y); reflexivity.
Qed.

Lemma flat_map_perm {A B} (g : A -> list B) l l' : Permutation l l' -> Permutation (flat_map g l) (flat_map g l').
Proof.
  induction 1 as [|x l l' _ IH|x y l|l l' l'' _ IH1 _ IH2]; cbn.
  - constructor.
  - now apply Permutation_app_head.
  - rewrite !app_assoc. apply Permutation_app_tail, Permutation_app_comm.
  - eapply Permutation_trans; eauto.
Qed.

(** record order: a permuted chunk fails iff the original fails, and otherwise yields a permutation
    of the same output records *)
Theorem sanitize_perm blocks ob val ta c c' : Permutation c c' ->
  match sanitize_records blocks ob val ta c, sanitize_records blocks ob val ta c' with
  | Some a, Some a' => Permutation a a'
  | None, None => True
  | _, _ => False
  end.
Proof.
  intros HP. rewrite !sanitize_is_map_filter. unfold collect.
  pose proof (Permutation_map (sanitize1 blocks ob val ta) HP) as HP'.
  rewrite (existsb_perm is_err _ _ HP').
  destruct (existsb is_err (map (sanitize1 blocks ob val ta) c')); [exact I|].
  now apply flat_map_perm.
Qed.

Definition is_keep (o : outcome) : bool := match o with OKeep _ => true | _ => false end.

Lemma length_kept l : length (flat_map kept l) = length (filter is_keep l).
Proof. induction l as [|[| |o] l IH]; cbn; lia. Qed.

(** every retained record contributes exactly one output row *)
Theorem sanitize_count blocks ob val ta chunk out :
  sanitize_records blocks ob val ta chunk = Some out ->
  length out = length (filter (fun r => is_keep (sanitize1 blocks ob val ta r)) chunk).
Proof.
  rewrite sanitize_is_map_filter. unfold collect.
  destruct (existsb is_err _); [discriminate|]. intros H. injection H as <-.
  rewrite length_kept. clear. induction chunk as [|r chunk IH]; [reflexivity|].
  cbn [map filter]. destruct (is_keep _); cbn [length]; lia.
Qed.

(* ------------------------------------------------------------ aggregate_records *)
Lemma sumZ_cons a l : sumZ (a :: l) = a + sumZ l.
Proof. reflexivity. Qed.

Lemma sum_ins k v l : sumZ (map snd (ins k v l)) = v + sumZ (map snd l).
Proof.
  induction l as [|[k' v'] l IH]; [cbn; lia|]. cbn [ins].
  destruct (kcmp k k'); cbn [map snd]; rewrite ?sumZ_cons; cbn [snd]; rewrite ?sumZ_cons, ?IH; cbn [snd]; lia.
Qed.

Lemma sum_aggregate l : sumZ (map snd (aggregate l)) = sumZ (map snd l).
Proof.
  unfold aggregate. enough (H : forall acc, sumZ (map snd (fold_left (fun acc p => ins (fst p) (snd p) acc) l acc)) =
                                sumZ (map snd acc) + sumZ (map snd l)) by (rewrite H; cbn [map]; change (sumZ []) with 0; lia).
  induction l as [|p l IH]; intros acc; [cbn [fold_left map]; change (sumZ []) with 0; lia|].
  cbn [fold_left]. rewrite IH, sum_ins. cbn [map]. rewrite sumZ_cons. lia.
Qed.

Lemma sum_ones {A} (g : A -> key) l : sumZ (map snd (map (fun o => (g o, 1)) l)) = zlen l.
Proof.
  unfold zlen. induction l as [|a l IH]; [reflexivity|]. cbn [map length]. rewrite sumZ_cons, IH. cbn [snd]. lia.
Qed.

(** aggregate_records: the canonical pixel table of the records, value = multiplicity; the counts add
    up to the number of records *)
Theorem aggregate_records_canon recs :
  Canon (map (fun o => (okey o, 1)) recs) (aggregate_records recs) /\
  sumZ (map snd (aggregate_records recs)) = zlen recs.
Proof.
  split; [apply aggregate_canon|]. unfold aggregate_records. rewrite sum_aggregate. apply sum_ones.
Qed.

Lemma look_ones (g : outrec -> key) l k :
  look (map (fun o => (g o, 1)) l) k = zlen (filter (fun o => keqb (g o) k) l).
Proof.
  unfold zlen. induction l as [|a l IH]; [reflexivity|]. cbn [map look filter].
  destruct (kcmp k (g a)) eqn:E.
  - apply kcmp_eq in E. subst k.
    assert (H : keqb (g a) (g a) = true) by (unfold keqb; now rewrite !Z.eqb_refl).
    rewrite H. cbn [length]. lia.
  - assert (keqb (g a) k = false).
    { unfold keqb. apply kcmp_lt in E. unfold klt in E. lia. }
    rewrite H. lia.
  - assert (keqb (g a) k = false).
    { unfold keqb. apply kcmp_gt in E. unfold klt in E. lia. }
    rewrite H. lia.
Qed.

(** the count stored for a pixel is the number of records binned to it *)
Corollary aggregate_records_multiplicity recs k :
  look (aggregate_records recs) k = zlen (filter (fun o => keqb (okey o) k) recs).
Proof.
  destruct (aggregate_records_canon recs) as [(_ & _ & Hl) _]. unfold aggregate_records in *. rewrite Hl. apply look_ones.
Qed.

(** total stored by the whole step = number of retained records *)
Theorem total_equals_retained blocks ob val ta chunk out :
  sanitize_records blocks ob val ta chunk = Some out ->
  sumZ (map snd (aggregate_records out)) =
  zlen (filter (fun r => is_keep (sanitize1 blocks ob val ta r)) chunk).
Proof.
  intros H. destruct (aggregate_records_canon out) as [_ ->]. unfold zlen. now rewrite (sanitize_count _ _ _ _ _ _ H).
Qed.

(* ------------------------------------------------------------ rejection and dropping *)
Theorem unknown_dropped blocks ob val ta r : known r = false -> sanitize1 blocks ob val ta r = ODrop.
Proof. intros H. unfold sanitize1, sanitize1_bs. now rewrite H. Qed.

(** every record on listed chromosomes with a (shifted) position < 0 or > L is an error ... *)
Theorem reject_out_of_range blocks ob ta r :
  known r = true ->
  let w := to_wrow ob r in
  (wa1 w < 0 \/ wa2 w < 0 \/ chromsize_of blocks (wc1 w) < wa1 w \/ chromsize_of blocks (wc2 w) < wa2 w) ->
  sanitize1 blocks ob true ta r = OErr.
Proof.
  intros Hk w H. unfold sanitize1, sanitize1_bs. rewrite Hk. cbn [negb andb]. fold w.
  assert (E : is_neg w || is_excess blocks w = true) by (unfold is_neg, is_excess; lia).
  now rewrite E.
Qed.

(** ... and makes its whole chunk fail *)
Corollary reject_chunk blocks ob ta chunk r :
  In r chunk -> known r = true ->
  let w := to_wrow ob r in
  (wa1 w < 0 \/ wa2 w < 0 \/ chromsize_of blocks (wc1 w) < wa1 w \/ chromsize_of blocks (wc2 w) < wa2 w) ->
  sanitize_records blocks ob true ta chunk = None.
Proof.
  intros Hin Hk w H. rewrite sanitize_is_map_filter. unfold collect.
  assert (E : existsb is_err (map (sanitize1 blocks ob true ta) chunk) = true).
  { apply existsb_exists. exists OErr. split; [|reflexivity].
    rewrite <- (reject_out_of_range blocks ob ta r Hk H). now apply in_map. }
  now rewrite E.
Qed.

(** what validation guarantees for a retained record: listed chromosomes, 0 <= position <= L.
    The right end is CLOSED: position = L passes (known finding D2) *)
Theorem accepted_in_range blocks ob ta r o :
  sanitize1 blocks ob true ta r = OKeep o ->
  known r = true /\
  let w := to_wrow ob r in
  0 <= wa1 w <= chromsize_of blocks (wc1 w) /\ 0 <= wa2 w <= chromsize_of blocks (wc2 w).
Proof.
  unfold sanitize1, sanitize1_bs. destruct (known r); cbn [negb andb]; [|discriminate].
  destruct (is_neg (to_wrow ob r) || is_excess blocks (to_wrow ob r)) eqn:E; [discriminate|].
  intros _. split; [reflexivity|]. unfold is_neg, is_excess in E. cbn zeta. lia.
Qed.

(** the full statement "position >= L is rejected" is false of the code: a zero-based position equal to the
    chromosome length is accepted and binned into the NEXT chromosome (fixed-width table), or gets the
    bin id nbins when it is the last chromosome *)
Theorem reject_refuted :
  let blocks := [[(0,0,10);(0,10,20)]; [(1,0,10)]] in
  let r : record := ((0, 20, 7), (0, 3, 8)) in
  valid_blocks_b blocks = true /\ known r = true /\ sp (fst r) = chromsize_of blocks (sc (fst r)) /\
  sanitize1 blocks false true TrilReflect r = OKeep (0, 2, (0, 3, 8), (0, 20, 7)) /\
  nth_error (table blocks) 2 = Some (1, 0, 10) /\
  sanitize1 [[(0,0,10);(0,10,20)]] false true TrilReflect r = OKeep (0, 2, (0, 3, 8), (0, 20, 7)) /\
  zlen (table [[(0,0,10);(0,10,20)]]) = 2.
Proof. vm_compute. repeat split; reflexivity. Qed.

(* ------------------------------------------------------------ one-based input *)
Definition dec_rec (r : record) : record :=
  ((sc (fst r), sp (fst r) - 1, sx (fst r)), (sc (snd r), sp (snd r) - 1, sx (snd r))).
Definition outcome_bins (o : outcome) : option (option key) :=
  match o with OErr => None | ODrop => Some None | OKeep x => Some (Some (okey x)) end.

(** one-based input is zero-based input shifted by exactly one: same verdict, same pixel *)
Theorem one_based_shift blocks val ta r :
  outcome_bins (sanitize1 blocks true val ta r) = outcome_bins (sanitize1 blocks false val ta (dec_rec r)).
Proof.
  destruct r as [[[c1 p1] x1] [[c2 p2] x2]].
  unfold sanitize1, sanitize1_bs, dec_rec, known, to_wrow, is_neg, is_excess, is_tril, assign_w, swap_w,
    wc1, wa1, wc2, wa2, shift1, sc, sp, sx. cbn [fst snd].
  repeat match goal with |- context [if ?b then _ else _] => destruct b end; try reflexivity;
  destruct ta; reflexivity.
Qed.

(* ------------------------------------------------------------ valid records: containment and triangle handling *)
Lemma chromsize_of_nth blocks i blk : nth_error blocks i = Some blk -> chromsize_of blocks (Z.of_nat i) = chrom_len blk.
Proof.
  intros Hi. unfold chromsize_of, gs_chromsizes, chromsizes. rewrite Nat2Z.id.
  apply nth_error_nth. now rewrite nth_error_map, Hi.
Qed.

(** an anchor (chromosome code c, zero-based position a) lies inside a listed chromosome *)
Definition InChrom (blocks : list (list bin)) (c a : Z) : Prop :=
  exists i blk, c = Z.of_nat i /\ nth_error blocks i = Some blk /\ 0 <= a < chrom_len blk.

Definition os1 (o : outrec) : side := snd (fst o).
Definition os2 (o : outrec) : side := snd o.

Lemma inchrom_contains blocks c a : ValidBlocks blocks -> InChrom blocks c a ->
  contains_b blocks c a (assign blocks c a) = true.
Proof.
  intros HV (i & blk & -> & Hi & Ha). apply contains_b_spec.
  destruct (assign_contains blocks i blk a HV Hi Ha) as (x & Hx & Hc & Hp & Hr).
  pose proof (chrom_offset_nonneg blocks i). split; [lia|]. exists x. auto.
Qed.

Section ValidRecord.
  Variable blocks : list (list bin).
  Variables (ob : bool) (r : record).
  Hypothesis HV : ValidBlocks blocks.
  Let w := to_wrow ob r.
  Hypothesis H1 : InChrom blocks (wc1 w) (wa1 w).
  Hypothesis H2 : InChrom blocks (wc2 w) (wa2 w).

  Lemma valid_known : known r = true.
  Proof.
    destruct H1 as (i1 & b1 & E1 & _), H2 as (i2 & b2 & E2 & _).
    unfold known. unfold w, to_wrow, wc1, wc2 in E1, E2. cbn [fst snd] in E1, E2. lia.
  Qed.

  Lemma valid_passes : is_neg w || is_excess blocks w = false.
  Proof.
    destruct H1 as (i1 & b1 & E1 & Hi1 & Ha1), H2 as (i2 & b2 & E2 & Hi2 & Ha2).
    unfold is_neg, is_excess. rewrite E1, E2, (chromsize_of_nth _ _ _ Hi1), (chromsize_of_nth _ _ _ Hi2). lia.
  Qed.

  (** the verdict on a valid record, by triangle action *)
  Theorem sanitize1_valid ta :
    sanitize1 blocks ob true ta r =
    if is_tril w then
      match ta with
      | TrilNone => OKeep (assign_w (gs_binsize blocks) blocks w)
      | TrilReflect => OKeep (assign_w (gs_binsize blocks) blocks (swap_w w))
      | TrilDrop => ODrop
      | TrilRaise => OErr
      end
    else OKeep (assign_w (gs_binsize blocks) blocks w).
  Proof.
    unfold sanitize1, sanitize1_bs. rewrite valid_known. cbn [negb andb]. fold w. now rewrite valid_passes.
  Qed.

  (** a retained valid record keeps its two sides (possibly exchanged) and each output bin contains
      the anchor of the side it belongs to *)
  Theorem kept_contains ta o :
    sanitize1 blocks ob true ta r = OKeep o ->
    ((os1 o, os2 o) = (fst r, snd r) \/ (os1 o, os2 o) = (snd r, fst r)) /\
    contains_b blocks (sc (os1 o)) (shift1 ob (sp (os1 o))) (ob1 o) = true /\
    contains_b blocks (sc (os2 o)) (shift1 ob (sp (os2 o))) (ob2 o) = true.
  Proof.
    rewrite sanitize1_valid.
    pose proof (inchrom_contains blocks _ _ HV H1) as C1. pose proof (inchrom_contains blocks _ _ HV H2) as C2.
    unfold assign in C1, C2.
    destruct (is_tril w); [destruct ta|]; intros E; try discriminate; injection E as <-;
      unfold assign_w, swap_w, os1, os2, ob1, ob2, wc1, wa1, wc2, wa2 in *; cbn [fst snd] in *;
      unfold w, to_wrow in *; cbn [fst snd] in *; auto.
  Qed.
End ValidRecord.

(* ------------------------------------------------------------ order of the assigned bins *)
Lemma chrom_offset_le blocks i j : (i <= j)%nat -> chrom_offset blocks i <= chrom_offset blocks j.
Proof.
  intros Hij. unfold chrom_offset, zlen. apply inj_le.
  replace (firstn j blocks) with (firstn i (firstn j blocks) ++ skipn i (firstn j blocks)) by apply firstn_skipn.
  rewrite firstn_firstn, Nat.min_l by lia. rewrite concat_app, app_length. lia.
Qed.

Lemma ss_right_mono l a1 a2 : a1 <= a2 -> searchsorted_right l a1 <= searchsorted_right l a2.
Proof.
  intros Ha. induction l as [|y l IH]; cbn [searchsorted_right]; [lia|].
  pose proof (ss_right_bounds l a2). destruct (y <=? a1) eqn:E1, (y <=? a2) eqn:E2; lia.
Qed.

Lemma assign_mono blocks i blk a1 a2 :
  ValidBlocks blocks -> nth_error blocks i = Some blk -> 0 <= a1 <= a2 ->
  assign blocks (Z.of_nat i) a1 <= assign blocks (Z.of_nat i) a2.
Proof.
  intros HV Hi Ha. rewrite (assign_extent blocks i blk a1 0 HV Hi), (assign_extent blocks i blk a2 0 HV Hi).
  unfold region_to_extent. destruct (get_binsize (table blocks)) as [b|] eqn:Hb.
  - destruct (fixed_shape blocks i blk b HV Hi Hb) as (Hb1 & _). unfold region_to_extent_fixed. cbn [fst].
    pose proof (Z.div_le_mono a1 a2 b ltac:(lia) ltac:(lia)). lia.
  - rewrite !(var_unfold blocks i blk Hi). cbn [fst].
    pose proof (ss_right_mono (map bstart blk) a1 a2 ltac:(lia)). lia.
Qed.

(** anchors in upper-triangle order get bins in upper-triangle order *)
Theorem upper_bins blocks c1 a1 c2 a2 :
  ValidBlocks blocks -> InChrom blocks c1 a1 -> InChrom blocks c2 a2 ->
  (c1 < c2 \/ (c1 = c2 /\ a1 <= a2)) ->
  assign blocks c1 a1 <= assign blocks c2 a2.
Proof.
  intros HV (i1 & b1 & -> & Hi1 & Ha1) (i2 & b2 & -> & Hi2 & Ha2) Hle.
  destruct Hle as [Hlt|[Heq Hle]].
  - destruct (assign_contains blocks i1 b1 a1 HV Hi1 Ha1) as (_ & _ & _ & _ & Hr1).
    destruct (assign_contains blocks i2 b2 a2 HV Hi2 Ha2) as (_ & _ & _ & _ & Hr2).
    pose proof (chrom_offset_le blocks (S i1) i2 ltac:(lia)). lia.
  - assert (i1 = i2) by lia. subst i2. apply (assign_mono blocks i1 b1); auto. lia.
Qed.

Section Triangle.
  Variable blocks : list (list bin).
  Variables (ob : bool) (r : record).
  Hypothesis HV : ValidBlocks blocks.
  Let w := to_wrow ob r.
  Hypothesis H1 : InChrom blocks (wc1 w) (wa1 w).
  Hypothesis H2 : InChrom blocks (wc2 w) (wa2 w).

  (** "reflect": every valid record is retained, a lower-triangle one with its sides exchanged, and the
      result is upper triangular in anchors and in bins *)
  Theorem reflect_upper :
    exists o, sanitize1 blocks ob true TrilReflect r = OKeep o /\
      (os1 o, os2 o) = (if is_tril w then (snd r, fst r) else (fst r, snd r)) /\
      ob1 o <= ob2 o.
  Proof.
    rewrite (sanitize1_valid blocks ob r H1 H2). fold w.
    destruct (is_tril w) eqn:Et; eexists; (split; [reflexivity|]); (split; [reflexivity|]);
      unfold assign_w, ob1, ob2; cbn [fst snd]; change (assign_bs (gs_binsize blocks) blocks) with (assign blocks).
    - apply upper_bins; auto; unfold swap_w, wc1, wa1, wc2, wa2 in *; cbn [fst snd] in *; auto.
      unfold is_tril, wc1, wa1, wc2, wa2 in Et. lia.
    - apply upper_bins; auto. unfold is_tril in Et. lia.
  Qed.

  (** "drop": a valid record is retained, unchanged, iff it is not in the lower triangle *)
  Theorem drop_lower :
    sanitize1 blocks ob true TrilDrop r =
    if is_tril w then ODrop else OKeep (assign blocks (wc1 w) (wa1 w), assign blocks (wc2 w) (wa2 w), fst r, snd r).
  Proof. rewrite (sanitize1_valid blocks ob r H1 H2). fold w. destruct (is_tril w); reflexivity. Qed.

  (** no action: every valid record is retained unchanged *)
  Theorem none_keeps_all :
    sanitize1 blocks ob true TrilNone r =
    OKeep (assign blocks (wc1 w) (wa1 w), assign blocks (wc2 w) (wa2 w), fst r, snd r).
  Proof. rewrite (sanitize1_valid blocks ob r H1 H2). fold w. destruct (is_tril w); reflexivity. Qed.
End Triangle.

(* ------------------------------------------------------------ _sanitize_pixels, record by record *)
Definition sanitize_px1 (ob : bool) (ta : tril_action) (r : pxrec) : option (list pxrec) :=
  let s := shift_px ob r in
  if pb2 s <? pb1 s then
    match ta with
    | TrilNone => Some [s]
    | TrilReflect => Some [swap_px s]
    | TrilDrop => Some []
    | TrilRaise => None
    end
  else Some [s].

Theorem sanitize_pixels_is_map_filter ob ta chunk :
  sanitize_pixels ob ta chunk = all_some (map (sanitize_px1 ob ta) chunk).
Proof.
  unfold sanitize_pixels. destruct ta; induction chunk as [|r chunk IH]; try reflexivity;
    cbn [map all_some filter existsb] in *; unfold sanitize_px1 at 1; cbn zeta;
    destruct (pb2 (shift_px ob r) <? pb1 (shift_px ob r)); cbn [negb orb]; rewrite <- ?IH; try reflexivity.
  - destruct (existsb _ _); reflexivity.
Qed.

(** both bin columns are shifted, and a reflected pixel is upper triangular *)
Theorem sanitize_px1_spec ob r :
  sanitize_px1 ob TrilReflect r =
  Some [ if shift1 ob (pb2 r) <? shift1 ob (pb1 r)
         then (shift1 ob (pb2 r), shift1 ob (pb1 r), px2 r, px1 r, pval r)
         else (shift1 ob (pb1 r), shift1 ob (pb2 r), px1 r, px2 r, pval r) ].
Proof.
  destruct r as [[[[b1 b2] x1] x2] v]. unfold sanitize_px1, shift_px, swap_px, pb1, pb2, px1, px2, pval. cbn [fst snd].
  destruct (shift1 ob b2 <? shift1 ob b1); reflexivity.
Qed.
(* ------------------------------------------------------------ the loader: chunk boundaries do not matter *)
Lemma all_some_sanitize blocks ob val ta chunks :
  all_some (map (sanitize_records blocks ob val ta) chunks) = sanitize_records blocks ob val ta (concat chunks).
Proof.
  induction chunks as [|c chunks IH]; [now rewrite sanitize_is_map_filter|].
  cbn [map all_some concat]. rewrite sanitize_app, IH.
  destruct (sanitize_records blocks ob val ta c), (sanitize_records blocks ob val ta (concat chunks)); reflexivity.
Qed.

(** `cooler cload pairs`: the stored pixels are aggregate_records of the per-record outputs of the whole
    input (restricted to bin1_id < nbins, see the model), however the reader cuts it into chunks; the
    command fails iff some record is an error *)
Theorem cload_pairs_spec blocks zero_based ta chunks :
  cload_pairs blocks zero_based ta chunks =
  match collect (map (sanitize1 blocks (negb zero_based) true ta) (concat chunks)) with
  | None => None
  | Some recs => Some (filter (fun p => row p <? zlen (table blocks)) (aggregate_records recs))
  end.
Proof. unfold cload_pairs. now rewrite all_some_sanitize, sanitize_is_map_filter. Qed.

Corollary cload_pairs_chunking blocks zero_based ta chunks chunks' :
  concat chunks = concat chunks' ->
  cload_pairs blocks zero_based ta chunks = cload_pairs blocks zero_based ta chunks'.
Proof. intros H. now rewrite !cload_pairs_spec, H. Qed.

(** when every retained record got a bin1 inside the table (true of every valid record) nothing is cut off *)
Lemma aggregate_records_inrange n recs :
  (forall o, In o recs -> ob1 o < n) ->
  filter (fun p => row p <? n) (aggregate_records recs) = aggregate_records recs.
Proof.
  intros H. apply filter_all. intros p Hp.
  destruct (aggregate_records_canon recs) as [(_ & Hk & _) _].
  assert (Hin : In (fst p) (keys (aggregate_records recs))) by (unfold keys; now apply in_map).
  apply Hk in Hin. unfold keys in Hin. rewrite map_map in Hin. cbn [fst] in Hin.
  apply in_map_iff in Hin as [o [Ho Hino]]. specialize (H o Hino).
  unfold row. rewrite <- Ho. unfold okey. cbn [fst]. lia.
Qed.
