(** C12 in binary64: the generic cell theorems (any scalar type, any cell operation) and their primitive-float
    instances.  The float statements are equalities between primitive-float terms: both sides are evaluated by the same
    IEEE-754 binary64 operations, so they hold bit for bit, rounding included. *)
From Cooler Require Import Model.Query Model.BalancedF Proofs.PixelsProofs Proofs.QueryProofs Proofs.SpansProofs Proofs.QueryMain Proofs.BalancedProofs.
From Coq Require Import ZifyBool SpecFloat FloatOps FloatAxioms.
Ltac Zify.zify_post_hook ::= Z.to_euclidean_division_equations.

Section G.
  Context {S : Type}.
  Variable sinv : S -> S.
  Variable cell : S -> S -> Z -> S.
  Variable snan : S.

  Definition gadj (divisive : bool) (x : S) : S := if divisive then sinv x else x.
  (** the weight bin k contributes: the stored one, or its reciprocal for divisive weights *)
  Definition gwt (w : list S) (divisive : bool) (k : Z) : S := gadj divisive (gnth snan w k).

  Lemma gnth_gbias w lo hi dv k : 0 <= lo -> lo <= hi -> hi <= zlen w -> 0 <= k < hi - lo ->
    gnth snan (gbias sinv w lo hi dv) k = gwt w dv (lo + k).
  Proof.
    intros Hlo Hlh Hhi Hk. unfold gnth, gbias, gwt, gadj, gnth.
    rewrite (nth_indep _ snan ((fun x => if dv then sinv x else x) snan)).
    - rewrite (map_nth (fun x => if dv then sinv x else x)). rewrite nth_slice by lia. reflexivity.
    - rewrite map_length, slice_length by lia. lia.
  Qed.
  Lemma gbias_length w lo hi dv : 0 <= lo -> lo <= hi -> hi <= zlen w -> List.length (gbias sinv w lo hi dv) = Z.to_nat (hi - lo).
  Proof. intros. unfold gbias. rewrite map_length. now apply slice_length. Qed.
  (** column weights always come from the column range *)
  Lemma gbias2_is_column_bias w i0 i1 j0 j1 dv : gbias2_of sinv w (i0, i1, j0, j1) dv = gbias sinv w j0 j1 dv.
  Proof.
    unfold gbias2_of. destruct ((i0 =? j0) && (i1 =? j1)) eqn:E; [|reflexivity].
    assert (i0 = j0 /\ i1 = j1) as [-> ->] by lia. reflexivity.
  Qed.

  Theorem gbalanced_dense_cell d w i0 i1 j0 j1 dv a b :
    0 <= i0 -> i0 <= i1 -> i1 <= zlen w -> 0 <= j0 -> j0 <= j1 -> j1 <= zlen w ->
    zlen d = i1 - i0 -> (forall r, In r d -> zlen r = j1 - j0) ->
    0 <= a < i1 - i0 -> 0 <= b < j1 - j0 ->
    nth (Z.to_nat b) (nth (Z.to_nat a) (gbalanced_dense sinv cell d w (i0, i1, j0, j1) dv) []) snan =
    cell (gwt w dv (i0 + a)) (gwt w dv (j0 + b)) (nth (Z.to_nat b) (nth (Z.to_nat a) d []) 0).
  Proof.
    intros Hi0 Hi Hi1 Hj0 Hj Hj1 Hd Hrows Ha Hb. unfold gbalanced_dense. rewrite gbias2_is_column_bias.
    assert (Hla : (Z.to_nat a < List.length d)%nat) by (unfold zlen in Hd; lia).
    rewrite nth_map_combine with (da := @nil Z) (db := snan) by (rewrite ?gbias_length; lia).
    cbn [fst snd].
    assert (Hrow : zlen (nth (Z.to_nat a) d []) = j1 - j0) by (apply Hrows, nth_In; exact Hla).
    rewrite nth_map_combine with (da := 0) (db := snan)
      by (rewrite ?gbias_length; unfold zlen in Hrow; lia).
    cbn [fst snd]. change (nth (Z.to_nat a) (gbias sinv w i0 i1 dv) snan) with (gnth snan (gbias sinv w i0 i1 dv) a).
    change (nth (Z.to_nat b) (gbias sinv w j0 j1 dv) snan) with (gnth snan (gbias sinv w j0 j1 dv) b).
    rewrite !gnth_gbias by lia. reflexivity.
  Qed.

  Theorem gbalanced_sparse_spec out w i0 i1 j0 j1 dv :
    0 <= i0 -> i0 <= i1 -> i1 <= zlen w -> 0 <= j0 -> j0 <= j1 -> j1 <= zlen w ->
    (forall r, In r out -> in_window (i0, i1, j0, j1) (snd r) = true) ->
    gbalanced_sparse sinv cell snan out w (i0, i1, j0, j1) dv =
    map (fun r => (fst (snd r), cell (gwt w dv (row (snd r))) (gwt w dv (col (snd r))) (val (snd r)))) out.
  Proof.
    intros Hi0 Hi Hi1 Hj0 Hj Hj1 Hin. unfold gbalanced_sparse. rewrite gbias2_is_column_bias.
    apply map_ext_in. intros r Hr. apply Hin in Hr. unfold in_window in Hr. cbv zeta. unfold ipixel, pixel in *.
    assert (Hrr : i0 <= row (snd r) < i1 /\ j0 <= col (snd r) < j1) by lia. destruct Hrr as [Hrr Hcc].
    rewrite (gnth_gbias w i0 i1 dv (row (snd r) - i0)) by lia. rewrite (gnth_gbias w j0 j1 dv (col (snd r) - j0)) by lia.
    replace (i0 + (row (snd r) - i0)) with (row (snd r)) by lia. replace (j0 + (col (snd r) - j0)) with (col (snd r)) by lia. reflexivity.
  Qed.

  Theorem gbalanced_pixels_spec out w dv :
    gbalanced_pixels sinv cell snan out w dv =
    map (fun r => (r, cell (gwt w dv (row (snd r))) (gwt w dv (col (snd r))) (val (snd r)))) out.
  Proof. unfold gbalanced_pixels, gwt, gadj. apply map_ext. intro r. destruct dv; reflexivity. Qed.
End G.

(** * binary64 *)
Definition fwt : list float -> bool -> Z -> float := gwt f_inv PrimFloat.nan.

Theorem fbalanced_dense_cell d w i0 i1 j0 j1 dv a b :
  0 <= i0 -> i0 <= i1 -> i1 <= zlen w -> 0 <= j0 -> j0 <= j1 -> j1 <= zlen w ->
  zlen d = i1 - i0 -> (forall r, In r d -> zlen r = j1 - j0) ->
  0 <= a < i1 - i0 -> 0 <= b < j1 - j0 ->
  nth (Z.to_nat b) (nth (Z.to_nat a) (fbalanced_dense d w (i0, i1, j0, j1) dv) []) PrimFloat.nan =
  PrimFloat.mul (f_of_Z (nth (Z.to_nat b) (nth (Z.to_nat a) d []) 0)) (PrimFloat.mul (fwt w dv (i0 + a)) (fwt w dv (j0 + b))).
Proof. intros. unfold fbalanced_dense. rewrite gbalanced_dense_cell by assumption. reflexivity. Qed.

Theorem fbalanced_sparse_spec out w i0 i1 j0 j1 dv :
  0 <= i0 -> i0 <= i1 -> i1 <= zlen w -> 0 <= j0 -> j0 <= j1 -> j1 <= zlen w ->
  (forall r, In r out -> in_window (i0, i1, j0, j1) (snd r) = true) ->
  fbalanced_sparse out w (i0, i1, j0, j1) dv =
  map (fun r => (fst (snd r), PrimFloat.mul (PrimFloat.mul (fwt w dv (row (snd r))) (fwt w dv (col (snd r)))) (f_of_Z (val (snd r))))) out.
Proof. intros. unfold fbalanced_sparse. rewrite gbalanced_sparse_spec by assumption. reflexivity. Qed.

Theorem fbalanced_pixels_spec out w dv :
  fbalanced_pixels out w dv =
  map (fun r => (r, PrimFloat.mul (PrimFloat.mul (fwt w dv (row (snd r))) (fwt w dv (col (snd r)))) (f_of_Z (val (snd r))))) out.
Proof. unfold fbalanced_pixels. rewrite gbalanced_pixels_spec. reflexivity. Qed.

(** the whole balanced dense query on a stored symmetric-upper table, every window and chunk size (composition with C03) *)
Theorem fdense_balanced_full n epx off cs w dv i0 i1 j0 j1 :
  ValidCSR n epx off -> Upper epx -> 1 <= cs ->
  0 <= i0 -> i0 <= i1 -> i1 <= n -> 0 <= j0 -> j0 <= j1 -> j1 <= n -> zlen w = n ->
  exists D, fmatrix_balanced epx off cs true Dense (Some (Some w)) dv (i0, i1, j0, j1) = Some (FDense D) /\
    forall a b, 0 <= a < i1 - i0 -> 0 <= b < j1 - j0 ->
      nth (Z.to_nat b) (nth (Z.to_nat a) D []) PrimFloat.nan =
      PrimFloat.mul (f_of_Z (symm (map snd epx) (i0 + a) (j0 + b))) (PrimFloat.mul (fwt w dv (i0 + a)) (fwt w dv (j0 + b))).
Proof.
  intros HV HU Hcs Hi0 Hi Hi1 Hj0 Hj Hj1 Hw.
  destruct (dense_eq_slice n epx off HV (linspace_cuts cs) (linspace_cuts_ok cs Hcs) i0 i1 j0 j1) as [out [Ho Hd]]; try assumption.
  unfold fmatrix_balanced, matrix_records. rewrite fill_lower_get_spans_eq, Ho.
  eexists. split; [reflexivity|]. intros a b Ha Hb. rewrite Hd.
  rewrite fbalanced_dense_cell; try lia.
  - do 2 f_equal.
    rewrite (nth_indep _ [] ((fun i => map (fun j => symm (map snd epx) i j) (zrange j0 (Z.to_nat (j1 - j0)))) 0)) by (rewrite map_length, zrange_length; lia).
    rewrite (map_nth (fun i => map (fun j => symm (map snd epx) i j) (zrange j0 (Z.to_nat (j1 - j0))))).
    rewrite (nth_indep _ 0 ((fun j => symm (map snd epx) (nth (Z.to_nat a) (zrange i0 (Z.to_nat (i1 - i0))) 0) j) 0)) by (rewrite map_length, zrange_length; lia).
    rewrite (map_nth (fun j => symm (map snd epx) (nth (Z.to_nat a) (zrange i0 (Z.to_nat (i1 - i0))) 0) j)).
    rewrite !nth_zrange by lia. f_equal; lia.
  - unfold zlen. rewrite map_length, zrange_length. lia.
  - intros r Hr. apply in_map_iff in Hr. destruct Hr as [i [<- _]]. unfold zlen. rewrite map_length, zrange_length. lia.
Qed.

(** a missing column is an error; a balanced request never yields the raw records *)
Theorem fmissing_column_is_error epx off cs fill form dv bb :
  fmatrix_balanced epx off cs fill form (Some None) dv bb = None.
Proof. unfold fmatrix_balanced. destruct (matrix_records epx off cs fill form bb); reflexivity. Qed.
Theorem fbalanced_never_raw epx off cs fill form w dv bb out :
  fmatrix_balanced epx off cs fill form (Some w) dv bb <> Some (FRaw out).
Proof.
  unfold fmatrix_balanced. destruct (matrix_records epx off cs fill form bb); [|discriminate].
  destruct w; [|discriminate]. destruct form; discriminate.
Qed.

(** NaN wherever either bin is masked, through the IEEE semantics of the primitive operations
    (standard-library statements mul_spec / div_spec of Floats.FloatAxioms) *)
Definition is_nan_f (x : float) : Prop := Prim2SF x = S754_nan.
Lemma mul_nan_l x y : is_nan_f x -> is_nan_f (PrimFloat.mul x y).
Proof. unfold is_nan_f. intro H. rewrite mul_spec, H. reflexivity. Qed.
Lemma mul_nan_r x y : is_nan_f y -> is_nan_f (PrimFloat.mul x y).
Proof. unfold is_nan_f. intro H. rewrite mul_spec, H. destruct (Prim2SF x); reflexivity. Qed.
Lemma inv_nan x : is_nan_f x -> is_nan_f (f_inv x).
Proof. unfold is_nan_f, f_inv. intro H. rewrite div_spec, H. destruct (Prim2SF PrimFloat.one); reflexivity. Qed.
Lemma fwt_masked w dv k : is_nan_f (gnth PrimFloat.nan w k) -> is_nan_f (fwt w dv k).
Proof. unfold fwt, gwt, gadj. intro H. destruct dv; [now apply inv_nan|exact H]. Qed.
Theorem fmasked_bin_gives_nan w dv k x v :
  is_nan_f (gnth PrimFloat.nan w k) ->
  is_nan_f (f_cell_dense (fwt w dv k) x v) /\ is_nan_f (f_cell_dense x (fwt w dv k) v) /\
  is_nan_f (f_cell_entry (fwt w dv k) x v) /\ is_nan_f (f_cell_entry x (fwt w dv k) v).
Proof.
  intro H. apply (fwt_masked w dv k) in H. unfold f_cell_dense, f_cell_entry. repeat split.
  - apply mul_nan_r, mul_nan_l, H.
  - apply mul_nan_r, mul_nan_r, H.
  - apply mul_nan_l, mul_nan_l, H.
  - apply mul_nan_l, mul_nan_r, H.
Qed.
