(** C12  Balanced reads equal raw values times the two bin weights.
    Weights are exact rationals, [None] = NaN (absorbing); [wt w dv k] is the weight bin k contributes: the stored
    weight, or its reciprocal when the column is divisive.  Only statements; proofs in Proofs/BalancedProofs.v. *)
From Cooler Require Import Model.Query Model.Balanced Proofs.QueryProofs Proofs.QueryMain Proofs.BalancedProofs.

(** dense output: cell (a, b) of the window = raw value x weight of row bin i0+a x weight of column bin j0+b.
    Row weights come from the row range and column weights from the column range, whatever the two ranges are. *)
Theorem C12_dense_cell : forall d w i0 i1 j0 j1 dv a b,
  0 <= i0 -> i0 <= i1 -> i1 <= zlen w -> 0 <= j0 -> j0 <= j1 -> j1 <= zlen w ->
  zlen d = i1 - i0 -> (forall r, In r d -> zlen r = j1 - j0) ->
  0 <= a < i1 - i0 -> 0 <= b < j1 - j0 ->
  nth (Z.to_nat b) (nth (Z.to_nat a) (balanced_dense d w (i0, i1, j0, j1) dv) []) None =
  wmul (wmul (wt w dv (i0 + a)) (wt w dv (j0 + b))) (wofZ (nth (Z.to_nat b) (nth (Z.to_nat a) d []) 0)).
Proof. exact balanced_dense_cell. Qed.
Print Assumptions C12_dense_cell.

(** the whole balanced dense query on a valid symmetric-upper table, for every window and chunk size:
    weights x the corresponding entry of the symmetric matrix (composition with C03) *)
Theorem C12_dense_balanced_full : forall n epx off cs cols balance dw name w i0 i1 j0 j1,
  ValidCSR n epx off -> Upper epx -> 1 <= cs ->
  0 <= i0 -> i0 <= i1 -> i1 <= n -> 0 <= j0 -> j0 <= j1 -> j1 <= n -> zlen w = n ->
  weight_name balance = Some name -> lookup_weights cols name = Some w ->
  exists D, matrix_balanced epx off cs true Dense cols balance dw (i0, i1, j0, j1) = Some (BDense D) /\
    forall a b, 0 <= a < i1 - i0 -> 0 <= b < j1 - j0 ->
      nth (Z.to_nat b) (nth (Z.to_nat a) D []) None =
      wmul (wmul (wt w (effective_divisive balance dw) (i0 + a)) (wt w (effective_divisive balance dw) (j0 + b)))
           (wofZ (symm (map snd epx) (i0 + a) (j0 + b))).
Proof. exact dense_balanced_full. Qed.
Print Assumptions C12_dense_balanced_full.

(** sparse output: the same product on every emitted entry *)
Theorem C12_sparse_entries : forall out w i0 i1 j0 j1 dv,
  0 <= i0 -> i0 <= i1 -> i1 <= zlen w -> 0 <= j0 -> j0 <= j1 -> j1 <= zlen w ->
  (forall r, In r out -> in_window (i0, i1, j0, j1) (snd r) = true) ->
  balanced_sparse out w (i0, i1, j0, j1) dv =
  map (fun r => (fst (snd r), wmul (wmul (wt w dv (row (snd r))) (wt w dv (col (snd r)))) (wofZ (val (snd r))))) out.
Proof. exact balanced_sparse_spec. Qed.
Print Assumptions C12_sparse_entries.

(** pixel output: balanced_k = count_k x w(bin1_k) x w(bin2_k) *)
Theorem C12_pixels_column : forall out w dv,
  balanced_pixels out w dv =
  map (fun r => (r, wmul (wmul (wt w dv (row (snd r))) (wt w dv (col (snd r)))) (wofZ (val (snd r))))) out.
Proof. exact balanced_pixels_spec. Qed.
Print Assumptions C12_pixels_column.

(** NaN wherever either bin is masked *)
Theorem C12_masked_bin_gives_nan : forall w dv k x y,
  wnth w k = None -> wmul (wmul (wt w dv k) x) y = None /\ wmul (wmul x (wt w dv k)) y = None.
Proof. intros w dv k x y H. rewrite (wt_masked w dv k H). split; [apply wmul_none_l|apply wmul_none_r]. Qed.
Print Assumptions C12_masked_bin_gives_nan.

(** divisive by default exactly for the conventional 4DN names; an explicit flag always wins *)
Theorem C12_divisive_default : forall balance dw,
  effective_divisive balance dw =
  match dw with
  | Some b => b
  | None => match balance with
            | Some (Some s) => (String.eqb s "KR" || String.eqb s "VC" || String.eqb s "VC_SQRT")%bool
            | _ => false
            end
  end.
Proof. exact effective_divisive_spec. Qed.
Print Assumptions C12_divisive_default.

(** asking for a missing weight column is an error, and a balanced request never yields an unbalanced result *)
Theorem C12_missing_column_is_error : forall epx off cs fill form cols balance dw bb name,
  weight_name balance = Some name -> lookup_weights cols name = None ->
  matrix_balanced epx off cs fill form cols balance dw bb = None.
Proof. exact missing_column_is_error. Qed.
Print Assumptions C12_missing_column_is_error.
Theorem C12_balanced_never_raw : forall epx off cs fill form cols balance dw bb name out,
  weight_name balance = Some name -> matrix_balanced epx off cs fill form cols balance dw bb <> Some (BRaw out).
Proof. exact balanced_never_raw. Qed.
Print Assumptions C12_balanced_never_raw.

(** non-vacuity *)
Definition ex12_px : list pixel := [((0,0),4); ((0,2),6); ((1,2),3); ((2,2),8)].
Definition ex12_w : list weight := [Some (1#2); None; Some (2#1)].
Example ex_C12_dense :
  option_map (fun r => match r with BDense d => d | _ => [] end)
    (matrix_balanced (epx_of ex12_px) (offsets_of 3 ex12_px) 2 true Dense [("weight"%string, ex12_w)] (Some None) None (1,3,0,3))
  = Some [[None; None; None]; [Some ((2#1) * (1#2) * inject_Z 6)%Q; None; Some ((2#1) * (2#1) * inject_Z 8)%Q]].
Proof. vm_compute. reflexivity. Qed.
Example ex_C12_divisive_by_name :
  effective_divisive (Some (Some "KR"%string)) None = true /\ effective_divisive (Some (Some "weight"%string)) None = false /\
  effective_divisive (Some (Some "KR"%string)) (Some false) = false.
Proof. vm_compute. repeat split. Qed.
